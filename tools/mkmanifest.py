#!/usr/bin/env python3
"""Regenerates /verif/MANIFEST.json from the table below (keeps it schema-valid)."""
import json, os, sys
ROOT = os.path.dirname(os.path.dirname(os.path.abspath(__file__)))
HOOK_COMMITS = ["e8add6c"]
# id -> (technique, level text, level note, design ref)
CHECKS = {
 "C01": ("runtime monitoring: outcome sets of the real loom::model on generated programs vs. an explicit-state interleaving reference (set-level oracle)",
         "Exploration: every program of an enumerated core plus seeded random programs is run under the real loom::model; the set of per-iteration results recorded at the client boundary must contain every result the interleaving reference computes. Bounded programs only.",
         "trusted: harness interpreter (lit.rs, sync.rs), reference machines (rc11.rs outcomes_sc, refm.rs); straight-line programs <= 9 ops / 4 threads", "§5-C01"),
 "C02": ("runtime monitoring: outcome sets of the real loom vs. an axiomatic RC11 enumerator (strong variant), known finding matched by witness-feature signature",
         "Exploration: litmus programs (exhaustive small families + classics in every ordering + random) run under loom; every outcome RC11 (as published, sb∪rf acyclic) allows must be produced by some iteration.",
         "trusted: rc11.rs (validated by `./check selftest` against published litmus verdicts); <= 8 memory events, <= 6 stores per location", "§5-C02"),
 "C03": ("runtime monitoring: every iteration's recorded values checked against the weakest-reading axiomatic model (offline checker over the client-boundary log)",
         "Exploration: same litmus families; every result of every iteration must be allowed by the weak variant (C++20 release sequences, SeqCst accesses as AcqRel, SeqCst fences kept).",
         "trusted: rc11.rs weak variant; unique values make reads-from recoverable", "§5-C03"),
}
NOT_YET = {}
def main():
    props = [json.loads(l) for l in open(os.path.join(ROOT, "properties.jsonl"))]
    checks, na = [], []
    for p in props:
        i = p["id"]
        if i in CHECKS:
            tech, text, note, ref = CHECKS[i]
            checks.append({"property_id": i, "quick_cmd": f"./check {i} quick", "thorough_cmd": f"./check {i} thorough",
                           "evidence_file": f"/verif/evidence/{i}.json", "replay_cmd_template": "./check replay {path}", "engine": "lv",
                           "level_claimed": {"category": "exploration", "text": text, "design_ref": ref}, "level_note": note, "technique": tech})
        else:
            na.append({"property_id": i, "reason": NOT_YET.get(i, "check under construction in this session; not claimed until its monitor is validated (see DESIGN.md §5)")})
    m = {"version": 1, "setup_cmd": "./check setup",
         "hooks": {"guard": "cargo feature verif-hooks", "enable": "harness/Cargo.toml depends on /repo with features checkpoint,futures,verif-hooks",
                   "baseline_off_cmd": "cd /repo && cargo test --workspace --no-fail-fast --offline", "source_commits": HOOK_COMMITS, "add_only": True},
         "engines": [{"name": "lv", "path": "harness/", "serves_properties": sorted(CHECKS), "kind_free_text": "Rust harness: program generators, interpreter on the real loom, client-boundary event logs, reference machines / axiomatic checker as oracles, decision-path trie monitor, sanitizer lanes"}],
         "checks": checks, "not_applicable": na,
         "notes": "All checks: exit 0 = held on everything explored, exit 1 + VIOLATION line = violation, KNOWN-FINDING lines for entries of known_findings.json. VERIF_SEED selects the random part."}
    json.dump(m, open(os.path.join(ROOT, "MANIFEST.json"), "w"), indent=1)
    import jsonschema
    jsonschema.validate(m, json.load(open("/root/.vp/MANIFEST.schema.json")))
    print("MANIFEST.json:", len(checks), "checks,", len(na), "not_applicable")
main()
