#!/usr/bin/env python3
"""Regenerates /verif/MANIFEST.json from the table below (keeps it schema-valid)."""
import json, os, sys
ROOT = os.path.dirname(os.path.dirname(os.path.abspath(__file__)))
HOOK_COMMITS = ["e8add6c"]  # /repo commit adding the verif-hooks feature (src/verif.rs, Path::verif_snapshot, one call in model.rs)
EXPL = "exploration"
# id -> (technique, level text, level note, design ref)
CHECKS = {
 "C01": ("runtime monitoring: outcome sets of the real loom::model on generated programs vs. an explicit-state interleaving reference (set-level oracle)",
         "Exploration: every program of an enumerated core plus seeded random programs is run under the real loom::model; the set of per-iteration results recorded at the client boundary must contain every result the interleaving reference computes. Bounded programs only. Also the Arc programs of C11 (completeness clause only) and pinned programs in which a thread yields while nobody else can run.",
         "trusted: harness interpreter (lit.rs, sync.rs), reference machines (rc11.rs outcomes_sc, refm.rs); straight-line programs <= 9 ops / 4 threads", "§5-C01"),
 "C02": ("runtime monitoring: outcome sets of the real loom vs. an axiomatic RC11 enumerator (strong variant), known finding matched by witness-feature signature",
         "Exploration: litmus programs (exhaustive small families + classics in every ordering + random) run under loom; every outcome RC11 (as published, sb∪rf acyclic) allows must be produced by some iteration.",
         "trusted: rc11.rs (validated by `./check selftest` against published litmus verdicts); <= 8 memory events, <= 6 stores per location", "§5-C02"),
 "C03": ("runtime monitoring: every iteration's recorded values checked against the weakest-reading axiomatic model (offline checker over the client-boundary log)",
         "Exploration: same litmus families; every result of every iteration must be allowed by the weak variant (C++20 release sequences, SeqCst accesses as AcqRel, SeqCst fences kept). Plus a long-history family (one location receiving more stores than loom's 7-slot history): soundness is judged there too (open known finding).",
         "trusted: rc11.rs weak variant; unique values make reads-from recoverable", "§5-C03"),
}
CHECKS.update({
 "C05": ("runtime monitoring: loom::model's verdict (panic classifier) on generated blocking programs vs. can_deadlock of an explicit-state reference machine; worker-process deaths are violations",
         "Exploration: an exhaustive core of 2-thread programs over mutexes/park/unpark/join plus random programs over all blocking primitives (some sharing objects through loom::sync::Arc); loom must report a deadlock exactly when the reference machine can reach one, and must neither panic internally nor kill the process. Also textbook condvar predicate loops (CvWaitUntil), deadlocks that need a try_lock to fail, and a clean-up guard in every thread whose destructor performs a loom operation while the thread unwinds (the model must still fail with the deadlock report, not abort). Also lock-order inversions whose second party is released by a third thread (message, unpark, notification, thread exit).",
         "trusted: sync.rs reference machine (documented std semantics) and interpreter; programs <= 4 threads x <= 4 ops", "§5-C05"),
 "C07": ("runtime monitoring: per-iteration client-boundary log replayed on a reference lock machine (exclusion, blocking, try-exactness), value conservation, loom's race detector as happens-before witness, outcome sets vs. reference",
         "Exploration: exhaustive 2-thread core over a mutex and a rwlock with try variants + random programs (nested sections, counters, cells under the locks); every return in every iteration must be a step the reference allows at that instant, outcome sets must equal the reference's.",
         "trusted: sync.rs reference machine, replay monitor, interpreter", "§5-C07"),
 "C08": ("runtime monitoring: per-iteration log replayed on the reference machine (a wait may only return when notified / token present / thread exited / the single spurious Notify return), deadlock verdict and outcome sets vs. reference, race detector as hb witness",
         "Exploration: exhaustive 2-thread core over park/unpark, a mutex, join, Notify + pinned condvar programs whose waiters are known to be waiting (flags set under the mutex, main spins) + random programs with condvar waiters, relaxed-flag protocols with value-dependent control flow, early/late/double notifications and notifications aimed at threads blocked elsewhere. Also wait-then-check loops on a relaxed flag (the reference's stale set for relaxed loads respects happens-before).",
         "trusted: sync.rs reference machine (FIFO condvar for completeness, any waiter for soundness), replay monitor", "§5-C08"),
 "C09": ("runtime monitoring: exactly-once / FIFO checker over unique message ids via log replay on a reference queue, leak/deadlock verdicts and outcome sets vs. reference, race detector as hb witness (including the no-over-synchronisation direction)",
         "Exploration: every program with <= 2 senders x <= 2 sends x <= 3 receives (recv/try_recv) + random programs with cells, receiver dropped or forgotten at the end. Also programs whose owner drops the receiver early (DropRx): queued messages are drained, later sends fail and are not leaks.",
         "trusted: sync.rs reference machine, replay monitor; only the main thread receives; senders live to the end of the iteration", "§5-C09"),
 "C13": ("runtime monitoring across process restarts: per-iteration sequences (outcomes, execution orders, decision paths from the iteration hook) of repeated, stopped, crashed (process abort) and resumed runs compared with the uninterrupted run",
         "Fault enumeration over crash points: every stop point k x 5 checkpoint intervals through a real checkpoint file (also with preemption bounds 1 and 2, and on blocking programs with spurious-wake branches), process aborts at the start / in the middle of an iteration resumed in a fresh process, failing iterations reloaded from their checkpoint, and a destructor-order probe (thread-locals whose destructors perform loom operations, compared across runs and fresh processes). Also SeqCst-fence litmus shapes among the stop/resume programs and the per-job panic-state monitor.",
         "trusted: lit.rs interpreter, iteration hook; crash during loom's own file write is not injected", "§5-C13"),
 "C14": ("runtime monitoring: online trie monitor over the decision path of every iteration (iteration hook): distinctness, prefix contiguity (depth-first), ordered alternatives, nothing left unexplored, hook calls = iterations",
         "Exploration: classic litmus shapes + random litmus programs (schedule and load branches) and random blocking programs (spurious-wake branches, disabled threads); every iteration of every model run is checked. Every fourth program is also run with decisions recorded while exploration is off (regions, skip_branch): such decisions must never be advanced. Also: the candidates of a load decision are pairwise different, programs whose store history has wrapped, exploration switched on only after the spawns (expect_explicit_explore), and the control runs repeated under preemption bounds 0 and 1.",
         "trusted: pathmon.rs, verif-hooks snapshot; termination only in bounded form (iteration cap)", "§5-C14"),
 "C15": ("runtime monitoring: preemptions counted independently of loom (from decision paths and from the client-boundary log) for bounds 0..6 and a bound >= #operations; result-set inclusions between bounds and the unbounded run",
         "Exploration: 9 model runs per program over classic + random litmus programs. Also blocking programs (all clauses) and blocking programs with yields (first clause only: preemptions counted from the decision paths). Also pinned programs with a load decision directly followed by the spurious decision of a Notify wait.",
         "trusted: pathmon.rs preemption counter, lit.rs interpreter", "§5-C15"),
 "C19": ("runtime monitoring: decision-path trie (no alternative explored at a branch taken with exploration disabled), metamorphic result-set comparisons for six control placements, exact-need probes for max_branches / max_permutations / max_duration / max_threads",
         "Exploration: ~22 model runs per program over classic + random litmus programs (eight placements of the controls, incl. a region right after an explorable decision with the lower bound that every placement of the region among the other threads is still explored, and stop_exploring() as the last call of an iteration) plus child-process probes of max_threads. Also skip_branch followed by explore (placements 9/10), every max_branches in the upper half below the need, and the limits applied to runs resumed from a checkpoint. Also both limits (max_permutations and max_duration) set at once. ",
         "trusted: pathmon.rs, lit.rs interpreter; equality only demanded where the region provably holds no two-alternative decision", "§5-C19"),
})
CHECKS.update({
 "C04": ("runtime monitoring: loom::model's causality-violation verdict on generated programs vs. an independent happens-before computation (axiomatic race oracle for atomics idioms, vector-clock reference machine for lock/channel/park/notify idioms)",
         "Exploration: enumerated message-passing idioms (1-2 hops, RMW chains, fence pairs, spawn/join, unsync_load) in every ordering assignment + random programs; loom must report a race iff some consistent execution has two conflicting accesses unordered by happens-before (strong/weak gap decides nothing). Also closure-long cell accesses that publish a flag from inside the closure (CellHold) and every assignment of read-guard/write-guard/mutex blocks over one cell to 3 threads. Also two queued channel messages with the read after the first receive only (gated on relaxed flags), and an Arc part: which Arc operations are synchronisation edges (release of a handle, then failing/successful try_unwrap, clone+drop, increment+decrement, behind a relaxed flag). Also Atomic::with_mut as an access that lasts for its whole closure.",
         "trusted: rc11.rs race_verdict, sync.rs reference machine; await loops modelled as blocking reads", "§5-C04"),
 "C06": ("runtime monitoring with fault injection: user assertions injected at crash points (any thread, while holding guards, inside with_mut closures, while others are blocked, before a spawned thread ran, at the branch limit); catch_unwind verdict vs. reachable failures of the reference machine; worker survival; probe model compared with its fresh-process record",
         "Fault enumeration: every program carries one or more injected failures; loom::model must unwind with a reachable failure (never return normally, never kill the process), return normally when none is reachable, and leave the process clean for the next model. Also failures raised while the thread owns objects whose destructors lock a held mutex (FailDropLock), while threads have live thread-locals with loom operations in their destructors (Tls), crash points at max_branches = L-1, 2L/3, L/2, the thread-local/lazy-static programs (none can fail), and a per-job monitor that std::thread::panicking() is false after every model returned. The unwind guard every thread owns performs an rmw, a load, a store and an unsync_load while unwinding. Also one pinned program with two failures in one execution (a suspended unwind must be finished before loom::model returns).",
         "trusted: sync.rs reference machine, panic classifier; when several failure kinds are reachable any is accepted", "§5-C06"),
})
CHECKS.update({
 "C10": ("runtime monitoring with leak injection: loom::model's leak verdict (panic classifier) vs. the live set of a reference-count / allocation / message-queue machine at the end of every interleaving",
         "Exploration: Arc handles, Track values, raw allocations and channel messages created, moved, dropped, forgotten or leaked schedule-dependently in 2-3 threads; loom must report a leak of a reachable kind iff some schedule ends with a live object. Also early receiver drops (DropRx), releases performed by destructors inside a catch_unwind of the program itself. Also detached children whose unclaimed return value is the first user of a thread-local owning tracked objects, and handles given back through into_raw + decrement_strong_count. Also one handle reached by reference from every thread.",
         "trusted: arcs.rs / sync.rs reference machines, panic classifier", "§5-C10"),
 "C11": ("runtime monitoring: every returned count / Option / Result replayed on a reference-count machine in log order, drop-exactly-once counter on the payload, result sets vs. reference, loom's race detector on a payload cell as witness of the drop ordering",
         "Exploration: exhaustive 2-thread core over clone/drop/strong_count/get_mut + try_unwrap, raw round trips, increment/decrement_strong_count + random programs (<= 8 handle operations). A successful get_mut writes the payload through the &mut it returns (happens-before from the earlier owners' reads). Also RawDrop (into_raw + decrement_strong_count as the release of a handle) and detached children. Also one handle that all threads reach by reference (inspections and clones of the sole handle from different threads).",
         "trusted: arcs.rs reference-count machine, replay, interpreter (handles created before the first spawn)", "§5-C11"),
})
CHECKS.update({
 "C12": ("runtime monitoring: differential execution against std::sync::atomic as the sequential model, comparison after every operation",
         "Exploration: 600 000 (quick) / 24 M (thorough) random operation sequences over all twelve atomic types, boundary-biased operands, all valid orderings. fetch_update is also driven with stateful FnMut closures (recorded arguments, call count). with_mut closures may write and then panic inside a catch_unwind of the program.",
         "trusted: std atomics; compare_exchange_weak compared with std's strong variant", "§5-C12"),
 "C16": ("runtime monitoring: complete per-iteration records (outcomes, execution orders, decision paths, thread ids, initial-state probes) of the same programs compared between a fresh process, the same process after failed models, and an OS thread surrounded by other OS threads running models",
         "Exploration over pairs/mixes of programs with fault injection (seven kinds of failing models run in between), plus pristine-replay probes: every k-th iteration of programs with SeqCst fences / exploration controls is re-run from its checkpoint (pristine state) and must reproduce the uninterrupted run. Also pristine-replay probes over blocking programs with yields, and the thread-local/lazy-static programs with a per-iteration monitor (lazy statics are dropped in this iteration's initialisation order). Also a 5-thread probe (what the first iteration may do every later one may).",
         "trusted: record digests, iteration hook; sanitizer lanes (TSan for the concurrent part, memcheck) are extra commands of the thorough tier", "§5-C16"),
 "C17": ("runtime monitoring: init/drop counters in std atomics checked per iteration at the iteration hook, ownership marks, instance addresses, try_with inside destructors, loom's race detector on data written inside a lazy static's init",
         "Exploration: exhaustive 2-thread core of static accesses + random programs with racing first accesses. Also destructors that start with a scheduling point with a monitor in the joiner (after join(t) every thread-local of t has been dropped) and the initialisation count of a lazy static whose initialiser yields (open known finding). Also first users of a thread-local that come after the thread's ordinary destructor pass (a lazy static's destructor in main, the unclaimed return value of a detached thread); the late thread-local owns a loom Arc, so a value destroyed outside the execution also shows in the leak check.",
         "trusted: counters, iteration hook", "§5-C17"),
 "C18": ("runtime monitoring: outcome sets of programs with yielding spin loops vs. the axiomatic reference with an await as a blocking read; panic classifier for the branch limit",
         "Exploration: enumerated await shapes in every ordering pair + random programs + never-true loops. The await's result carries a 'spun' bit and loop bodies can announce the wait with a store; for every set of awaits that spun the reference is the program with one explicit failed load (+ body store) before them; loom's documented yield rule is an exemption from the must-set only (open known finding on combinations with other threads' observations). Also an rmwspin part: await loops whose check is a read-modify-write (swap test-and-set, fetch_add(0), fetch_or, CAS loop) in 3 ordering pairs, waiter in main/child, yield_now/spin_loop, a test-and-set lock around a cell, never-released loops. ",
         "trusted: rc11.rs, lit.rs interpreter", "§5-C18"),
 "C20": ("runtime monitoring: block_on verdict (return value / deadlock panic) vs. an explicit-state model of poll/wait/wake, poll and wake counters, unique-id wakers registered in AtomicWaker",
         "Exploration: every waking script of <= 3 steps for both waker-publication protocols, with and without the re-check, 1-2 waking threads, one flag per waker, relaxed flags, and the direct protocol (waker clones handed to threads spawned at the first poll, so only the wake orders the flag before the re-poll). Also polls that wake themselves through the borrowed waker and return Pending (yield_now().await), and a counter incremented by every waker. Also a stale waker left over from an earlier block_on on the same thread.",
         "trusted: fam_fut.rs reference model", "§5-C20"),
})
NOT_YET = {}
def main():
    props = [json.loads(l) for l in open(os.path.join(ROOT, "properties.jsonl"))]
    checks, na = [], []
    for p in props:
        i = p["id"]
        if i in CHECKS:
            tech, text, note, ref = CHECKS[i]
            checks.append({"property_id": i, "quick_cmd": f"./check {i} quick", "thorough_cmd": f"./check {i} thorough",
                           "evidence_file": f"/verif/evidence/{i}.json", "replay_cmd_template": "./check replay {path}", "engine": "lv",
                           "level_claimed": {"category": "exploration", "text": text, "design_ref": ref}, "level_note": note, "technique": tech})
        else:
            na.append({"property_id": i, "reason": NOT_YET.get(i, "check under construction in this session; not claimed until its monitor is validated (see DESIGN.md §5)")})
    m = {"version": 1, "setup_cmd": "./check setup",
         "hooks": {"guard": "cargo feature verif-hooks", "enable": "harness/Cargo.toml depends on /repo with features checkpoint,futures,verif-hooks",
                   "baseline_off_cmd": "cd /repo && cargo test --workspace --no-fail-fast --offline", "source_commits": HOOK_COMMITS, "add_only": True},
         "engines": [{"name": "lv", "path": "harness/", "serves_properties": sorted(CHECKS), "kind_free_text": "Rust harness: program generators, interpreter on the real loom, client-boundary event logs, reference machines / axiomatic checker as oracles, decision-path trie monitor, sanitizer lanes"}],
         "checks": checks, "not_applicable": na,
         "notes": "All checks: exit 0 = held on everything explored, exit 1 + VIOLATION line = violation, KNOWN-FINDING lines for entries of known_findings.json. VERIF_SEED selects the random part."}
    json.dump(m, open(os.path.join(ROOT, "MANIFEST.json"), "w"), indent=1)
    import jsonschema
    jsonschema.validate(m, json.load(open("/root/.vp/MANIFEST.schema.json")))
    print("MANIFEST.json:", len(checks), "checks,", len(na), "not_applicable")
main()
