#!/bin/bash
# tools/seed_eval.sh <seeded-id> <check> [<check>...]
# Evaluates the quick tier of the given checks against loom + seeded/<id>/patch.diff in a scratch
# copy (a temporary worktree of /repo's HEAD and a copy of the harness pointed at it), without
# touching /repo. Prints one line per check: FIRED / MISSED. Scratch is removed afterwards.
set -u
ROOT="$(cd "$(dirname "$0")/.." && pwd)"
id="$1"; shift
patch="$ROOT/seeded/$id/patch.diff"
[ -f "$patch" ] || { echo "no $patch"; exit 2; }
S="/tmp/seedeval-$id"
rm -rf "$S"; git -C /repo worktree prune
git -C /repo worktree add -q --detach "$S/loom" HEAD || exit 2
git -C "$S/loom" apply "$patch" || { echo "patch does not apply"; git -C /repo worktree remove --force "$S/loom"; exit 2; }
mkdir -p "$S/verif/work" "$S/verif/evidence" "$S/verif/replays"
rsync -a --exclude 'target*' "$ROOT/harness" "$S/verif/"
cp "$ROOT/known_findings.json" "$ROOT/properties.jsonl" "$S/verif/"
sed -i "s|path = \"/repo\"|path = \"$S/loom\"|" "$S/verif/harness/Cargo.toml"
( cd "$S/verif/harness" && CARGO_NET_OFFLINE=true cargo build --release --offline >"$S/build.log" 2>&1 ) || { echo "BUILD-FAILED (see $S/build.log)"; tail -5 "$S/build.log"; exit 2; }
for c in "$@"; do
  out=$(LV_ROOT="$S/verif" LV_NO_MEMCHECK=${LV_NO_MEMCHECK:-1} VERIF_SEED=${VERIF_SEED:-0} "$S/verif/harness/target/release/lv" check "$c" --tier "${TIER:-quick}" --seed "${VERIF_SEED:-0}" 2>"$S/err-$c.txt"); rc=$?
  nviol=$(echo "$out" | grep -c '^VIOLATION')
  summary=$(echo "$out" | tail -1)
  first=$(grep -m1 -E '^\s+\[' "$S/err-$c.txt" | cut -c1-300)
  if [ $rc -eq 1 ] && [ "$nviol" -gt 0 ]; then echo "$id $c FIRED rc=$rc :: $summary :: $first"; else echo "$id $c MISSED rc=$rc :: $summary"; fi
done
[ -n "${KEEP:-}" ] || { git -C /repo worktree remove --force "$S/loom"; rm -rf "$S"; }
