#!/bin/bash
# tools/seed_import.sh <worktree> <seeded-id> <property> : re-verify a sub-agent's change in its scratch worktree and keep it
set -u
ROOT="$(cd "$(dirname "$0")/.." && pwd)"
wt="$1"; id="$2"; prop="$3"
d="$ROOT/seeded/$id"; mkdir -p "$d"
cd "$wt" || exit 2
git diff -- src > "$d/patch.diff"
[ -s "$d/patch.diff" ] || cp SEEDED/patch.diff "$d/patch.diff"
cp tests/seeded_demo.rs "$d/seeded_demo.rs" 2>/dev/null || cp SEEDED/seeded_demo.rs "$d/seeded_demo.rs"
cp SEEDED/notes.md "$d/notes.md" 2>/dev/null
# with the change: existing suite passes, demo fails
git checkout -q -- src; git apply "$d/patch.diff" || { echo "patch does not apply"; exit 2; }
cp "$d/seeded_demo.rs" tests/seeded_demo.rs
with_suite=$(CARGO_NET_OFFLINE=true cargo test --offline 2>&1 | grep -E "^test result|Running|FAILED" )
suite_fail=$(echo "$with_suite" | awk '/Running/{cur=$0} /test result: FAILED/{print cur}' | grep -v seeded_demo | wc -l)
demo_with=$(CARGO_NET_OFFLINE=true cargo test --offline --test seeded_demo 2>&1 | grep -E "^test result" | tail -1)
git apply -R "$d/patch.diff"
demo_without=$(CARGO_NET_OFFLINE=true cargo test --offline --test seeded_demo 2>&1 | grep -E "^test result" | tail -1)
git apply "$d/patch.diff"
echo "suite failures other than the demo, with the change: $suite_fail"
echo "demo with change:    $demo_with"
echo "demo without change: $demo_without"
python3 - "$d" "$prop" "$suite_fail" "$demo_with" "$demo_without" <<'PY'
import json,sys
d,prop,sf,dw,dwo=sys.argv[1:6]
notes=open(d+'/notes.md').read() if __import__('os').path.exists(d+'/notes.md') else ''
json.dump({"property":prop,"source":"fresh sub-agent given only the property text and a scratch worktree","confirmed":{"existing_suite_failures_with_change":int(sf),"demo_with_change":dw,"demo_without_change":dwo,"commands":["cargo test --offline (with the change)","cargo test --offline --test seeded_demo (with / without the change)"]},"needs_to_manifest":"see notes.md","notes_excerpt":notes[:1500]},open(d+'/meta.json','w'),indent=1)
PY
