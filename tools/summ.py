import json,collections,sys
recs=[json.loads(l) for l in open(sys.argv[1])]
c=collections.Counter(); ex={}
for r in recs:
    for v in r['viol']:
        k=(v['clause'],v['sig'])
        c[k]+=1
        ex.setdefault(k,[]).append(r['prog'])
for k,n in c.most_common(int(sys.argv[2]) if len(sys.argv)>2 else 30):
    print(n,k)
    for e in sorted(ex[k],key=len)[:4]: print('      ',e)
print(collections.Counter(r['status'] for r in recs))
