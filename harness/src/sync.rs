//! SYNC DSL: straight-line programs over the blocking primitives, the R-SC reference machine
//! (explicit-state search with vector clocks for the happens-before clauses), the replay monitor
//! (M-REPLAY) and the interpreter on the real loom.
use crate::common::*;
use serde::{Deserialize, Serialize};
use std::collections::{BTreeSet, HashMap, HashSet};
use std::sync::{Arc, Mutex as SM};

pub const NT: usize = 5;

#[derive(Clone, Copy, Debug, PartialEq, Eq, Hash, PartialOrd, Ord, Serialize, Deserialize)]
pub enum SOp {
    Lock(u8),
    /// drop the guard slot of mutex m (no-op when a preceding try_lock failed)
    Unlock(u8),
    /// try_lock into the guard slot; records 1/0
    TryLock(u8),
    Read,
    Write,
    TryRead,
    TryWrite,
    /// drop the rwlock guard slot
    RwUnlock,
    Park,
    Unpark(u8),
    Join(u8),
    Send(u8),
    Recv,
    TryRecv,
    /// condvar wait with mutex 0 (guard must be held)
    CvWait,
    /// `while *guard(mutex 0) < n { guard = cv.wait(guard) }`: the textbook predicate loop (the predicate is the counter in mutex 0)
    CvWaitUntil(u8),
    NotifyOne,
    NotifyAll,
    ALoad(u8),
    AStore(u8, u8),
    /// `while x.load(SeqCst) != v { yield_now() }` — only the main thread spins (never two spinners at once)
    AwaitA(u8, u8),
    /// Relaxed load / store of atomic x: values only, no happens-before
    RLoad(u8),
    RStore(u8, u8),
    /// skip the next n operations unless the last recorded result of this thread equals v
    SkipUnlessLast(i64, u8),
    NWait,
    NNotify,
    CellW(u8),
    CellR(u8),
    /// plain `*guard += 1` through the guard of mutex m (must be held)
    Incr(u8),
    /// user assertion failing unconditionally
    Fail(u8),
    /// user assertion failing inside an UnsafeCell::with_mut closure (cell 1)
    FailInCell(u8),
    /// user assertion failing inside AtomicUsize::with_mut (exclusive access through a private atomic)
    FailInAtomicMut(u8),
    /// user assertion failing when the last recorded result of this thread equals v
    FailIfLast(u8, i64),
    Yield,
    /// user assertion failing while the thread owns an object whose destructor locks mutex m (not held by this
    /// thread): the destructor runs during the unwind and may have to wait for the holder
    FailDropLock(u8, u8),
    /// touches a `loom::thread_local!` whose value owns a loom Arc of an atomic and updates it in its destructor
    Tls,
    /// the owner drops the receiver (queued messages are drained by its destructor; later sends get their message back)
    DropRx,
    /// while holding a read guard: take a second one with try_read (always possible: no writer can hold the lock), then
    /// drop the FIRST one; the thread holds a read guard throughout
    TryReadNested,
}

#[derive(Clone, Debug, PartialEq, Eq, Hash, Serialize, Deserialize)]
pub struct SProg {
    pub threads: Vec<Vec<SOp>>,
    /// share the objects through loom::sync::Arc instead of std::sync::Arc
    pub loom_arc: bool,
    /// mem::forget the receiver at the end instead of dropping it (leak injection)
    pub forget_rx: bool,
    /// the thread that owns the receiver (recv / try_recv only there); it hands the receiver back to main
    /// when it finishes, so the receiver outlives every sender
    #[serde(default)]
    pub rx_owner: u8,
}

impl SProg {
    pub fn s(&self) -> String {
        let body = self.threads.iter().map(|t| t.iter().map(|o| format!("{:?}", o)).collect::<Vec<_>>().join("; ")).collect::<Vec<_>>().join("  ||  ");
        format!("{}{}{}{}", if self.loom_arc { "[loom::Arc] " } else { "" }, if self.forget_rx { "[forget rx] " } else { "" }, if self.rx_owner != 0 { format!("[rx in thread {}] ", self.rx_owner) } else { String::new() }, body)
    }
    pub fn hash(&self) -> u64 {
        fnv(&self.s())
    }
    pub fn ops(&self) -> impl Iterator<Item = &SOp> {
        self.threads.iter().flatten()
    }
    pub fn has(&self, f: impl Fn(&SOp) -> bool) -> bool {
        self.ops().any(|o| f(o))
    }
    pub fn has_atomics(&self) -> bool {
        self.has(|o| matches!(o, SOp::ALoad(_) | SOp::AStore(..) | SOp::RLoad(_) | SOp::RStore(..) | SOp::AwaitA(..)))
    }
    pub fn has_cells(&self) -> bool {
        self.has(|o| matches!(o, SOp::CellW(_) | SOp::CellR(_)))
    }
    pub fn has_chan(&self) -> bool {
        self.has(|o| matches!(o, SOp::Send(_) | SOp::Recv | SOp::TryRecv))
    }
}

#[derive(Clone, Debug, PartialEq, Eq, Hash, PartialOrd, Ord, Serialize, Deserialize)]
pub enum Term {
    /// per-thread results, final counter values, messages drained at the end
    Done(Vec<Vec<i64>>, [i64; 2]),
    Deadlock,
    Failed(u8),
    Race,
    LeakMsgs,
}

type VC = [u8; NT];
fn vjoin(a: &mut VC, b: &VC) {
    for i in 0..NT {
        a[i] = a[i].max(b[i]);
    }
}
fn vle(a: &VC, b: &VC) -> bool {
    (0..NT).all(|i| a[i] <= b[i])
}

#[derive(Clone, PartialEq, Eq, Hash, Debug)]
pub struct St {
    pc: Vec<u8>,
    sub: Vec<u8>,
    mutex: [i8; 2],
    held: Vec<u8>,
    rw_writer: i8,
    rw_readers: u8,
    rw_held: Vec<u8>,
    token: u8,
    chan: Vec<(u8, VC)>,
    rx_dropped: bool,
    cvq: Vec<u8>,
    atom: [u8; 2],
    /// every value ever stored with RStore (a relaxed load may legally return an older one)
    /// every relaxed store so far with the storing thread's clock (which stale values a relaxed load may still return)
    hist: [Vec<(u8, VC)>; 2],
    nflag: bool,
    nspur: bool,
    res: Vec<Vec<i64>>,
    counter: [i64; 2],
    failed: Option<u8>,
    raced: bool,
    started: u8,
    // happens-before tracking
    vc: Vec<VC>,
    mvc: [VC; 2],
    rwvc: VC,
    tokvc: Vec<VC>,
    nvc: VC,
    wakevc: Vec<VC>,
    cell_w: [VC; 2],
    cell_r: [VC; 2],
    atomvc: [VC; 2],
}

impl St {
    pub fn failed(&self) -> Option<u8> {
        self.failed
    }
    pub fn raced(&self) -> bool {
        self.raced
    }
    pub fn sub_of(&self, t: usize) -> u8 {
        self.sub[t]
    }
    pub fn chan_len(&self) -> usize {
        self.chan.len()
    }
}

pub struct Machine<'a> {
    pub p: &'a SProg,
    /// notify_one wakes the queue head (completeness form) or any waiter (soundness form)
    pub fifo: bool,
    /// Notify::wait may return spuriously once per object (an allowance loom models, never an obligation)
    pub spurious: bool,
}

impl<'a> Machine<'a> {
    pub fn init(&self) -> St {
        let n = self.p.threads.len();
        let mut vc = vec![[0u8; NT]; n];
        vc[0][0] = 1;
        let mut st = St {
            pc: vec![0; n],
            sub: vec![0; n],
            mutex: [-1; 2],
            held: vec![0; n],
            rw_writer: -1,
            rw_readers: 0,
            rw_held: vec![0; n],
            token: 0,
            chan: vec![],
            rx_dropped: false,
            cvq: vec![],
            atom: [0; 2],
            hist: [vec![(0, [0; NT])], vec![(0, [0; NT])]],
            nflag: false,
            nspur: false,
            res: vec![Vec::new(); n],
            counter: [0; 2],
            failed: None,
            raced: false,
            started: 1,
            vc,
            mvc: [[0; NT]; 2],
            rwvc: [0; NT],
            tokvc: vec![[0; NT]; n],
            nvc: [0; NT],
            wakevc: vec![[0; NT]; n],
            cell_w: [[0; NT]; 2],
            cell_r: [[0; NT]; 2],
            atomvc: [[0; NT]; 2],
        };
        // main spawns every thread before its first operation: spawn edge
        for t in 1..n {
            st.vc[t] = st.vc[0];
            st.vc[t][t] = 1;
            st.started |= 1 << t;
        }
        st.vc[0][0] = 2;
        st
    }

    fn done(&self, s: &St, t: usize) -> bool {
        s.pc[t] as usize >= self.p.threads[t].len()
    }

    pub fn op_at(&self, s: &St, t: usize) -> Option<SOp> {
        self.p.threads[t].get(s.pc[t] as usize).copied()
    }

    pub fn term_done(&self, s: &St) -> Term {
        Term::Done(s.res.clone(), s.counter)
    }

    pub fn all_done(&self, s: &St) -> bool {
        (0..self.p.threads.len()).all(|t| self.done(s, t))
    }

    /// Successor states of thread t's next (sub)step. Each carries `completes`: whether the
    /// operation returns in this step, and the value it returns (for the replay monitor).
    pub fn steps(&self, s: &St, t: usize) -> Vec<(St, bool, Option<i64>)> {
        let mut v = Vec::new();
        if self.done(s, t) || s.failed.is_some() || s.raced {
            return v;
        }
        let op = self.p.threads[t][s.pc[t] as usize];
        let mut ns = s.clone();
        let tick = |ns: &mut St| {
            ns.vc[t][t] += 1;
        };
        let adv = |ns: &mut St| {
            ns.pc[t] += 1;
            ns.sub[t] = 0;
        };
        match op {
            SOp::Lock(m) => {
                let m = m as usize;
                if s.mutex[m] < 0 {
                    ns.mutex[m] = t as i8;
                    ns.held[t] |= 1 << m;
                    let c = ns.mvc[m];
                    vjoin(&mut ns.vc[t], &c);
                    tick(&mut ns);
                    adv(&mut ns);
                    v.push((ns, true, None));
                }
            }
            SOp::TryLock(m) => {
                let m = m as usize;
                let ok = s.mutex[m] < 0;
                if ok {
                    ns.mutex[m] = t as i8;
                    ns.held[t] |= 1 << m;
                    let c = ns.mvc[m];
                    vjoin(&mut ns.vc[t], &c);
                }
                ns.res[t].push(ok as i64);
                tick(&mut ns);
                adv(&mut ns);
                v.push((ns, true, Some(ok as i64)));
            }
            SOp::Unlock(m) => {
                let m = m as usize;
                if s.held[t] >> m & 1 == 1 {
                    debug_assert_eq!(s.mutex[m], t as i8);
                    ns.mutex[m] = -1;
                    ns.held[t] &= !(1 << m);
                    let c = ns.vc[t];
                    vjoin(&mut ns.mvc[m], &c);
                }
                tick(&mut ns);
                adv(&mut ns);
                v.push((ns, true, None));
            }
            SOp::Incr(m) => {
                let m = m as usize;
                if s.held[t] >> m & 1 == 1 {
                    ns.counter[m] += 1;
                }
                adv(&mut ns);
                v.push((ns, true, None));
            }
            SOp::Read | SOp::TryRead => {
                let ok = s.rw_writer < 0;
                if ok {
                    ns.rw_readers |= 1 << t;
                    ns.rw_held[t] = 1;
                    let c = ns.rwvc;
                    vjoin(&mut ns.vc[t], &c);
                }
                if op == SOp::TryRead {
                    ns.res[t].push(ok as i64);
                    tick(&mut ns);
                    adv(&mut ns);
                    v.push((ns, true, Some(ok as i64)));
                } else if ok {
                    tick(&mut ns);
                    adv(&mut ns);
                    v.push((ns, true, None));
                }
            }
            SOp::TryReadNested => {
                debug_assert_eq!(s.rw_held[t], 1);
                ns.res[t].push(1);
                tick(&mut ns);
                adv(&mut ns);
                v.push((ns, true, Some(1)));
            }
            SOp::Write | SOp::TryWrite => {
                let ok = s.rw_writer < 0 && s.rw_readers == 0;
                if ok {
                    ns.rw_writer = t as i8;
                    ns.rw_held[t] = 2;
                    let c = ns.rwvc;
                    vjoin(&mut ns.vc[t], &c);
                }
                if op == SOp::TryWrite {
                    ns.res[t].push(ok as i64);
                    tick(&mut ns);
                    adv(&mut ns);
                    v.push((ns, true, Some(ok as i64)));
                } else if ok {
                    tick(&mut ns);
                    adv(&mut ns);
                    v.push((ns, true, None));
                }
            }
            SOp::RwUnlock => {
                match s.rw_held[t] {
                    1 => {
                        ns.rw_readers &= !(1 << t);
                        let c = ns.vc[t];
                        vjoin(&mut ns.rwvc, &c);
                    }
                    2 => {
                        ns.rw_writer = -1;
                        let c = ns.vc[t];
                        vjoin(&mut ns.rwvc, &c);
                    }
                    _ => {}
                }
                ns.rw_held[t] = 0;
                tick(&mut ns);
                adv(&mut ns);
                v.push((ns, true, None));
            }
            SOp::Park => match s.sub[t] {
                // entry: consume a stored token, or become parked (no event)
                0 => {
                    if s.token >> t & 1 == 1 {
                        ns.token &= !(1 << t);
                        let c = ns.tokvc[t];
                        vjoin(&mut ns.vc[t], &c);
                        tick(&mut ns);
                        adv(&mut ns);
                        v.push((ns, true, None));
                    } else {
                        ns.sub[t] = 1;
                        v.push((ns, false, None));
                    }
                }
                1 => {}
                // woken by an unpark that found the thread parked
                _ => {
                    let c = ns.wakevc[t];
                    vjoin(&mut ns.vc[t], &c);
                    tick(&mut ns);
                    adv(&mut ns);
                    v.push((ns, true, None));
                }
            },
            SOp::Unpark(u) => {
                let u = u as usize;
                let c = ns.vc[t];
                let parked = !self.done(s, u) && matches!(self.p.threads[u][s.pc[u] as usize], SOp::Park) && s.sub[u] == 1;
                if parked {
                    ns.sub[u] = 2;
                    vjoin(&mut ns.wakevc[u], &c);
                } else {
                    ns.token |= 1 << u;
                    vjoin(&mut ns.tokvc[u], &c);
                }
                tick(&mut ns);
                adv(&mut ns);
                v.push((ns, true, if parked { Some(-7) } else { Some(-8) }));
            }
            SOp::Join(u) => {
                let u = u as usize;
                if self.done(s, u) {
                    let c = ns.vc[u];
                    vjoin(&mut ns.vc[t], &c);
                    tick(&mut ns);
                    adv(&mut ns);
                    v.push((ns, true, None));
                }
            }
            SOp::Send(_) if s.rx_dropped => {
                // the receiver is gone: `send` hands the message back, nothing is queued (and nothing can leak)
                tick(&mut ns);
                adv(&mut ns);
                v.push((ns, true, None));
            }
            SOp::DropRx => {
                for (_, c) in std::mem::take(&mut ns.chan) {
                    vjoin(&mut ns.vc[t], &c);
                }
                ns.rx_dropped = true;
                tick(&mut ns);
                adv(&mut ns);
                v.push((ns, true, None));
            }
            SOp::Send(id) => {
                let c = ns.vc[t];
                // a message carries the clock of its send and of every earlier send (FIFO order is observable)
                let mut mc = c;
                if let Some((_, prev)) = ns.chan.last() {
                    let p = *prev;
                    vjoin(&mut mc, &p);
                }
                ns.chan.push((id, mc));
                tick(&mut ns);
                adv(&mut ns);
                v.push((ns, true, None));
            }
            SOp::Recv => {
                if !s.chan.is_empty() {
                    let (id, c) = ns.chan.remove(0);
                    vjoin(&mut ns.vc[t], &c);
                    ns.res[t].push(id as i64);
                    tick(&mut ns);
                    adv(&mut ns);
                    v.push((ns, true, Some(id as i64)));
                }
            }
            SOp::TryRecv => {
                let r = if s.chan.is_empty() {
                    -1
                } else {
                    let (id, c) = ns.chan.remove(0);
                    vjoin(&mut ns.vc[t], &c);
                    id as i64
                };
                ns.res[t].push(r);
                tick(&mut ns);
                adv(&mut ns);
                v.push((ns, true, Some(r)));
            }
            SOp::CvWait => match s.sub[t] {
                0 => {
                    debug_assert_eq!(s.mutex[0], t as i8);
                    ns.mutex[0] = -1;
                    ns.held[t] &= !1;
                    let c = ns.vc[t];
                    vjoin(&mut ns.mvc[0], &c);
                    ns.cvq.push(t as u8);
                    ns.sub[t] = 1;
                    tick(&mut ns);
                    v.push((ns, false, None));
                }
                1 => {}
                _ => {
                    if s.mutex[0] < 0 {
                        ns.mutex[0] = t as i8;
                        ns.held[t] |= 1;
                        let c = ns.mvc[0];
                        vjoin(&mut ns.vc[t], &c);
                        let w = ns.wakevc[t];
                        vjoin(&mut ns.vc[t], &w);
                        tick(&mut ns);
                        adv(&mut ns);
                        v.push((ns, true, None));
                    }
                }
            },
            SOp::CvWaitUntil(n) => match s.sub[t] {
                0 => {
                    debug_assert_eq!(s.mutex[0], t as i8);
                    if s.counter[0] >= n as i64 {
                        adv(&mut ns);
                        v.push((ns, true, None));
                    } else {
                        ns.mutex[0] = -1;
                        ns.held[t] &= !1;
                        let c = ns.vc[t];
                        vjoin(&mut ns.mvc[0], &c);
                        ns.cvq.push(t as u8);
                        ns.sub[t] = 1;
                        tick(&mut ns);
                        v.push((ns, false, None));
                    }
                }
                1 => {}
                _ => {
                    // woken: re-acquire the mutex, then check the predicate again
                    if s.mutex[0] < 0 {
                        ns.mutex[0] = t as i8;
                        ns.held[t] |= 1;
                        let c = ns.mvc[0];
                        vjoin(&mut ns.vc[t], &c);
                        let w = ns.wakevc[t];
                        vjoin(&mut ns.vc[t], &w);
                        tick(&mut ns);
                        ns.sub[t] = 0;
                        v.push((ns, false, None));
                    }
                }
            },
            SOp::NotifyOne => {
                let c = s.vc[t];
                if s.cvq.is_empty() {
                    tick(&mut ns);
                    adv(&mut ns);
                    v.push((ns, true, None));
                } else {
                    let choices: Vec<usize> = if self.fifo { vec![0] } else { (0..s.cvq.len()).collect() };
                    for i in choices {
                        let mut n2 = s.clone();
                        let w = n2.cvq.remove(i) as usize;
                        n2.sub[w] = 2;
                        vjoin(&mut n2.wakevc[w], &c);
                        n2.vc[t][t] += 1;
                        n2.pc[t] += 1;
                        n2.sub[t] = 0;
                        v.push((n2, true, None));
                    }
                }
            }
            SOp::NotifyAll => {
                let c = s.vc[t];
                for w in std::mem::take(&mut ns.cvq) {
                    ns.sub[w as usize] = 2;
                    vjoin(&mut ns.wakevc[w as usize], &c);
                }
                tick(&mut ns);
                adv(&mut ns);
                v.push((ns, true, None));
            }
            SOp::ALoad(x) => {
                let x = x as usize;
                ns.res[t].push(s.atom[x] as i64);
                let c = ns.atomvc[x];
                vjoin(&mut ns.vc[t], &c);
                tick(&mut ns);
                adv(&mut ns);
                v.push((ns, true, Some(s.atom[x] as i64)));
            }
            SOp::AStore(x, val) => {
                let x = x as usize;
                ns.atom[x] = val;
                ns.atomvc[x] = ns.vc[t];
                tick(&mut ns);
                adv(&mut ns);
                v.push((ns, true, None));
            }
            SOp::AwaitA(x, val) => {
                let x = x as usize;
                if s.atom[x] == val {
                    let c = ns.atomvc[x];
                    vjoin(&mut ns.vc[t], &c);
                    tick(&mut ns);
                    adv(&mut ns);
                    v.push((ns, true, None));
                }
            }
            SOp::RLoad(x) => {
                let x = x as usize;
                // soundness form: any value stored so far (stale relaxed reads are legal); completeness form: the latest
                // (any store that is not happens-before-superseded: a store i is out once a store j that i happens-before
                // happens-before the reader - coherence)
                let vals: Vec<u8> = if self.spurious {
                    let h = &s.hist[x];
                    let mut vals: Vec<u8> = Vec::new();
                    for (i, (val, ci)) in h.iter().enumerate() {
                        let superseded = h.iter().enumerate().any(|(j, (_, cj))| j > i && vle(ci, cj) && vle(cj, &s.vc[t]));
                        if !superseded && !vals.contains(val) {
                            vals.push(*val);
                        }
                    }
                    vals
                } else {
                    vec![s.atom[x]]
                };
                for val in vals {
                    let mut n2 = s.clone();
                    n2.res[t].push(val as i64);
                    n2.pc[t] += 1;
                    n2.sub[t] = 0;
                    v.push((n2, true, Some(val as i64)));
                }
            }
            SOp::RStore(x, val) => {
                ns.atom[x as usize] = val;
                let c = ns.vc[t];
                if !ns.hist[x as usize].contains(&(val, c)) {
                    ns.hist[x as usize].push((val, c));
                }
                adv(&mut ns);
                v.push((ns, true, None));
            }
            SOp::SkipUnlessLast(val, n) => {
                if s.res[t].last() == Some(&val) {
                    ns.pc[t] += 1;
                } else {
                    ns.pc[t] = (s.pc[t] + 1 + n).min(self.p.threads[t].len() as u8);
                }
                ns.sub[t] = 0;
                v.push((ns, true, None));
            }
            SOp::NWait => {
                if s.sub[t] == 0 {
                    // the single spurious return of the Notify object is a choice made at wait entry
                    if self.spurious && !s.nspur {
                        let mut sp = s.clone();
                        sp.nspur = true;
                        sp.pc[t] += 1;
                        sp.sub[t] = 0;
                        sp.vc[t][t] += 1;
                        v.push((sp, true, None));
                    }
                    ns.sub[t] = 1;
                    v.push((ns, false, None));
                } else if s.nflag {
                    ns.nflag = false;
                    let c = ns.nvc;
                    vjoin(&mut ns.vc[t], &c);
                    tick(&mut ns);
                    adv(&mut ns);
                    v.push((ns, true, None));
                }
            }
            SOp::NNotify => {
                ns.nflag = true;
                let c = ns.vc[t];
                vjoin(&mut ns.nvc, &c);
                tick(&mut ns);
                adv(&mut ns);
                v.push((ns, true, None));
            }
            SOp::CellW(c) => {
                let c = c as usize;
                if !vle(&s.cell_w[c], &s.vc[t]) || !vle(&s.cell_r[c], &s.vc[t]) {
                    ns.raced = true;
                }
                ns.cell_w[c] = ns.vc[t];
                let me = ns.vc[t];
                vjoin(&mut ns.cell_r[c], &me);
                adv(&mut ns);
                v.push((ns, true, None));
            }
            SOp::CellR(c) => {
                let c = c as usize;
                if !vle(&s.cell_w[c], &s.vc[t]) {
                    ns.raced = true;
                }
                let me = ns.vc[t];
                vjoin(&mut ns.cell_r[c], &me);
                adv(&mut ns);
                v.push((ns, true, None));
            }
            SOp::Fail(id) | SOp::FailInCell(id) | SOp::FailInAtomicMut(id) | SOp::FailDropLock(id, _) => {
                ns.failed = Some(id);
                v.push((ns, true, None));
            }
            SOp::FailIfLast(id, val) => {
                if s.res[t].last() == Some(&val) {
                    ns.failed = Some(id);
                } else {
                    adv(&mut ns);
                }
                v.push((ns, true, None));
            }
            SOp::Yield | SOp::Tls => {
                tick(&mut ns);
                adv(&mut ns);
                v.push((ns, true, None));
            }
        }
        v
    }
}

#[derive(Default, Debug, Clone)]
pub struct RefResult {
    pub terms: BTreeSet<Term>,
    pub states: usize,
    pub paths_bound: u64,
}

impl RefResult {
    pub fn can_deadlock(&self) -> bool {
        self.terms.contains(&Term::Deadlock)
    }
    pub fn can_race(&self) -> bool {
        self.terms.contains(&Term::Race)
    }
    pub fn can_leak(&self) -> bool {
        self.terms.contains(&Term::LeakMsgs)
    }
    pub fn fails(&self) -> Vec<u8> {
        self.terms.iter().filter_map(|t| if let Term::Failed(i) = t { Some(*i) } else { None }).collect()
    }
    pub fn dones(&self) -> BTreeSet<Term> {
        self.terms.iter().filter(|t| matches!(t, Term::Done(..))).cloned().collect()
    }
    pub fn only_done(&self) -> bool {
        self.terms.iter().all(|t| matches!(t, Term::Done(..)))
    }
}

/// Explicit-state search of every interleaving (completeness form: FIFO condvar).
pub fn reference(p: &SProg, state_budget: usize, spurious: bool) -> Option<RefResult> {
    let m = Machine { p, fifo: true, spurious };
    let mut seen: HashSet<St> = HashSet::new();
    let mut out = RefResult::default();
    let mut stack = vec![m.init()];
    while let Some(s) = stack.pop() {
        if !seen.insert(s.clone()) {
            continue;
        }
        if seen.len() > state_budget {
            return None;
        }
        if let Some(id) = s.failed {
            out.terms.insert(Term::Failed(id));
            continue;
        }
        if s.raced {
            out.terms.insert(Term::Race);
            continue;
        }
        let mut any = false;
        for t in 0..p.threads.len() {
            for (ns, _, _) in m.steps(&s, t) {
                any = true;
                stack.push(ns);
            }
        }
        if !any {
            if m.all_done(&s) {
                if p.forget_rx && !s.chan.is_empty() {
                    out.terms.insert(Term::LeakMsgs);
                } else {
                    out.terms.insert(Term::Done(s.res.clone(), s.counter));
                }
            } else {
                out.terms.insert(Term::Deadlock);
            }
        }
    }
    out.states = seen.len();
    Some(out)
}

/// M-REPLAY: the recorded returns of one iteration, in execution order, must be steps the
/// specification allows (soundness form: notify_one may wake any waiter). Set-of-states
/// simulation because some steps (entering a wait) leave no event.
pub fn replay(p: &SProg, log: &[(u8, u8, i64)], completed: bool) -> Result<(), String> {
    let m = Machine { p, fifo: false, spurious: true };
    let mut cur: HashSet<St> = HashSet::new();
    cur.insert(m.init());
    let close = |set: &mut HashSet<St>| {
        let mut work: Vec<St> = set.iter().cloned().collect();
        while let Some(s) = work.pop() {
            for t in 0..p.threads.len() {
                for (ns, completes, _) in m.steps(&s, t) {
                    if !completes && set.insert(ns.clone()) {
                        work.push(ns);
                    }
                }
            }
        }
    };
    for (i, &(t, pc, res)) in log.iter().enumerate() {
        close(&mut cur);
        let mut next: HashSet<St> = HashSet::new();
        for s in &cur {
            if s.pc[t as usize] != pc {
                continue;
            }
            for (ns, completes, r) in m.steps(s, t as usize) {
                if !completes {
                    continue;
                }
                // SeqCst loads may legitimately return stale values (loom treats them as Acquire): not checked here
                let is_aload = matches!(p.threads[t as usize][pc as usize], SOp::ALoad(_) | SOp::RLoad(_) | SOp::Unpark(_));
                let value_ok = match r {
                    Some(x) => is_aload || x == res,
                    None => true,
                };
                if value_ok && ns.failed.is_none() {
                    next.insert(ns);
                }
            }
        }
        if next.is_empty() {
            let op = p.threads[t as usize].get(pc as usize);
            return Err(format!("event #{}: thread {} returned from {:?} with {} but the specification has it blocked or returning something else in every state consistent with the log so far", i, t, op, res));
        }
        cur = next;
    }
    if completed {
        close(&mut cur);
        if !cur.iter().any(|s| m.all_done(s)) {
            return Err("the iteration completed but the specification has unfinished threads".into());
        }
    }
    Ok(())
}

// ---------------------------------------------------------------------------------------------
// Generators
// ---------------------------------------------------------------------------------------------

#[derive(Clone, Copy, Default)]
pub struct GenOpts {
    pub fails: bool,
    pub cells: bool,
    pub loom_arc_pct: usize,
    pub forget_rx_pct: usize,
}

/// kinds: l lock/unlock, t try_lock, R rwlock read, W rwlock write, T try_read/try_write, p park,
/// u unpark, j join, s send, r recv/try_recv, c condvar wait, n notify_one/all, a SeqCst atomics,
/// w Notify::wait, f Notify::notify, C cells, i counter increment, F fail, y yield
pub fn gen_sync(rng: &mut Rng, t: usize, k: usize, kinds: &str, o: GenOpts) -> SProg {
    use SOp::*;
    let mut threads = Vec::new();
    let kb = kinds.as_bytes();
    let rx_owner = if rng.chance(1, 3) { rng.below(t) } else { 0 };
    for th in 0..t {
        let len = 1 + rng.below(k);
        // guard state: 0 free, 1 held, 2 maybe held (after try_lock)
        let mut held = [0u8; 2];
        let mut rw = 0u8;
        let mut joined = vec![false; t];
        let mut ops: Vec<SOp> = Vec::new();
        let mut n = 0;
        while n < len {
            let mut pushed = false;
            for _try in 0..30 {
                let c = kb[rng.below(kb.len())] as char;
                let op = match c {
                    'l' => {
                        let m = rng.below(2);
                        if held[m] != 0 {
                            held[m] = 0;
                            Unlock(m as u8)
                        } else {
                            held[m] = 1;
                            Lock(m as u8)
                        }
                    }
                    't' => {
                        let m = rng.below(2);
                        if held[m] != 0 {
                            continue;
                        }
                        held[m] = 2;
                        TryLock(m as u8)
                    }
                    'R' | 'W' | 'T' => {
                        if rw != 0 {
                            rw = 0;
                            RwUnlock
                        } else {
                            rw = 1;
                            match c {
                                'R' => Read,
                                'W' => Write,
                                _ => {
                                    if rng.chance(1, 2) {
                                        TryRead
                                    } else {
                                        TryWrite
                                    }
                                }
                            }
                        }
                    }
                    'p' => Park,
                    'u' => {
                        let u = rng.below(t);
                        if u == th {
                            continue;
                        }
                        Unpark(u as u8)
                    }
                    'j' => {
                        if th != 0 || t < 2 {
                            continue;
                        }
                        let u = 1 + rng.below(t - 1);
                        if joined[u] {
                            continue;
                        }
                        joined[u] = true;
                        Join(u as u8)
                    }
                    's' => Send((th * 10 + ops.len()) as u8 + 1),
                    'D' => {
                        if th != rx_owner || ops.contains(&DropRx) {
                            continue;
                        }
                        DropRx
                    }
                    'r' => {
                        if th != rx_owner || ops.contains(&DropRx) {
                            continue;
                        }
                        if rng.chance(1, 2) {
                            Recv
                        } else {
                            TryRecv
                        }
                    }
                    'c' => {
                        if held[0] != 1 {
                            continue;
                        }
                        CvWait
                    }
                    'n' => {
                        if rng.chance(1, 2) {
                            NotifyOne
                        } else {
                            NotifyAll
                        }
                    }
                    'a' => {
                        let x = rng.below(2) as u8;
                        if rng.chance(1, 2) {
                            ALoad(x)
                        } else {
                            AStore(x, (th * 10 + ops.len()) as u8 + 1)
                        }
                    }
                    'w' => {
                        if th != 1 {
                            continue;
                        }
                        NWait
                    }
                    'f' => NNotify,
                    'C' => {
                        if !o.cells {
                            continue;
                        }
                        let cidx = rng.below(2) as u8;
                        if rng.chance(1, 2) {
                            CellW(cidx)
                        } else {
                            CellR(cidx)
                        }
                    }
                    'i' => {
                        let m = rng.below(2);
                        if held[m] != 1 {
                            continue;
                        }
                        Incr(m as u8)
                    }
                    'T' => Tls,
                    'F' => {
                        if !o.fails {
                            continue;
                        }
                        if rng.chance(1, 6) {
                            ops.push(if rng.chance(1, 2) { FailInCell(th as u8) } else { FailInAtomicMut(th as u8) });
                            pushed = true;
                            break;
                        }
                        match ops.last() {
                            Some(TryLock(_)) | Some(TryRead) | Some(TryWrite) if rng.chance(1, 2) => FailIfLast(th as u8, rng.below(2) as i64),
                            Some(TryRecv) if rng.chance(1, 2) => FailIfLast(th as u8, -1),
                            _ if rng.chance(1, 4) && (held[0] == 0 || held[1] == 0) => {
                                let m = if held[0] == 0 { 0 } else { 1 };
                                FailDropLock(th as u8, m as u8)
                            }
                            _ => Fail(th as u8),
                        }
                    }
                    'g' => {
                        // relaxed flag protocol: either publish the flag, or look at it and do the next 1-2 operations only if it was seen
                        if rng.chance(1, 2) {
                            RStore(0, 1)
                        } else {
                            ops.push(RLoad(0));
                            let body: Vec<SOp> = (0..1 + rng.below(2))
                                .map(|_| match rng.below(3) {
                                    0 => Park,
                                    1 if o.cells => CellR(rng.below(2) as u8),
                                    2 if o.cells => CellW(rng.below(2) as u8),
                                    _ => Park,
                                })
                                .collect();
                            ops.push(SkipUnlessLast(1, body.len() as u8));
                            ops.extend(body);
                            n += 2;
                            pushed = true;
                            break;
                        }
                    }
                    'y' => Yield,
                    _ => continue,
                };
                ops.push(op);
                pushed = true;
                break;
            }
            if !pushed {
                break;
            }
            n += 1;
        }
        for m in 0..2 {
            if held[m] != 0 {
                ops.push(Unlock(m as u8));
            }
        }
        if rw != 0 {
            ops.push(RwUnlock);
        }
        threads.push(ops);
    }
    // a destructor that locks m during the unwind must be able to get the lock: no other thread waits for anything
    // (or may keep m for good) while it holds m; otherwise the failure is a plain one
    for th in 0..threads.len() {
        for i in 0..threads[th].len() {
            if let FailDropLock(id, m) = threads[th][i] {
                let safe = (0..threads.len()).filter(|u| *u != th).all(|u| {
                    let mut holding = false;
                    for op in &threads[u] {
                        match *op {
                            Lock(x) if x == m => holding = true,
                            TryLock(x) if x == m => holding = true,
                            Unlock(x) if x == m => holding = false,
                            Lock(_) | Read | Write | Join(_) | Recv | CvWait | CvWaitUntil(_) | NWait | Park | AwaitA(..) | Fail(_) | FailInCell(_) | FailInAtomicMut(_) | FailIfLast(..) | FailDropLock(..) if holding => return false,
                            _ => {}
                        }
                    }
                    !holding
                });
                if !safe {
                    threads[th][i] = Fail(id);
                }
            }
        }
    }
    SProg { threads, loom_arc: rng.below(100) < o.loom_arc_pct, forget_rx: rng.below(100) < o.forget_rx_pct, rx_owner: rx_owner as u8 }
}

/// Exhaustive enumeration: all programs with `t` threads and at most `k` ops per thread over `alphabet`
/// (well-formedness filtered by `ok`).
pub fn enumerate(t: usize, k: usize, alphabet: &dyn Fn(usize) -> Vec<SOp>, ok: &dyn Fn(&[SOp], usize) -> bool) -> Vec<SProg> {
    // per-thread op lists
    let mut per_thread: Vec<Vec<Vec<SOp>>> = Vec::new();
    for th in 0..t {
        let al = alphabet(th);
        let mut lists: Vec<Vec<SOp>> = vec![vec![]];
        let mut frontier: Vec<Vec<SOp>> = vec![vec![]];
        for _ in 0..k {
            let mut nf = Vec::new();
            for l in &frontier {
                for op in &al {
                    let mut l2 = l.clone();
                    l2.push(*op);
                    nf.push(l2);
                }
            }
            lists.extend(nf.iter().cloned());
            frontier = nf;
        }
        per_thread.push(lists.into_iter().filter(|l| ok(l, th)).collect());
    }
    let mut out = Vec::new();
    let mut idx = vec![0usize; t];
    loop {
        let threads: Vec<Vec<SOp>> = (0..t).map(|th| per_thread[th][idx[th]].clone()).collect();
        if threads.iter().skip(1).all(|l| !l.is_empty()) {
            out.push(SProg { threads, loom_arc: false, forget_rx: false, rx_owner: 0 });
        }
        let mut j = 0;
        loop {
            if j == t {
                return out;
            }
            idx[j] += 1;
            if idx[j] < per_thread[j].len() {
                break;
            }
            idx[j] = 0;
            j += 1;
        }
    }
}

/// Well-formedness of one thread's op list: balanced guards, waits hold the mutex, no re-lock.
pub fn well_formed(l: &[SOp], th: usize) -> bool {
    let mut held = [0u8; 2];
    let mut rw = 0;
    let mut joined: u32 = 0;
    for op in l {
        match *op {
            SOp::Lock(m) => {
                if held[m as usize] != 0 {
                    return false;
                }
                held[m as usize] = 1;
            }
            SOp::TryLock(m) => {
                if held[m as usize] != 0 {
                    return false;
                }
                held[m as usize] = 2;
            }
            SOp::Unlock(m) => {
                if held[m as usize] == 0 {
                    return false;
                }
                held[m as usize] = 0;
            }
            SOp::Incr(m) => {
                if held[m as usize] != 1 {
                    return false;
                }
            }
            SOp::CvWait | SOp::CvWaitUntil(_) => {
                if held[0] != 1 {
                    return false;
                }
            }
            SOp::FailDropLock(_, m) => {
                if held[m as usize] != 0 {
                    return false;
                }
            }
            SOp::Read | SOp::Write | SOp::TryRead | SOp::TryWrite => {
                if rw != 0 {
                    return false;
                }
                rw = 1;
            }
            SOp::RwUnlock => {
                if rw == 0 {
                    return false;
                }
                rw = 0;
            }
            SOp::Join(u) => {
                if th != 0 || joined >> u & 1 == 1 {
                    return false;
                }
                joined |= 1 << u;
            }
            SOp::Unpark(u) => {
                if u as usize == th {
                    return false;
                }
            }
            SOp::Recv | SOp::TryRecv => {
                if th != 0 {
                    return false;
                }
            }
            SOp::NWait => {
                if th != 1 {
                    return false;
                }
            }
            _ => {}
        }
    }
    held == [0, 0] && rw == 0
}

// ---------------------------------------------------------------------------------------------
// Interpreter on the real loom
// ---------------------------------------------------------------------------------------------

pub struct CellsSync(pub [loom::cell::UnsafeCell<u64>; 2]);
unsafe impl Sync for CellsSync {}
unsafe impl Send for CellsSync {}

/// The owner of the cell has a destructor that uses the cell (a container that drains itself in `Drop`): when the
/// access panics (a causality violation detected by loom), the destructor runs during the unwind.
struct TouchOnUnwind<'a>(&'a loom::cell::UnsafeCell<u64>);
impl Drop for TouchOnUnwind<'_> {
    fn drop(&mut self) {
        if std::thread::panicking() {
            self.0.with_mut(|p| unsafe { std::ptr::write_volatile(p, 2) });
        }
    }
}

struct LockOnDrop<'a>(&'a loom::sync::Mutex<i64>);
impl Drop for LockOnDrop<'_> {
    fn drop(&mut self) {
        if let Ok(mut g) = self.0.lock() {
            *g += 0;
        }
    }
}

struct TlsProbe(std::cell::RefCell<Option<loom::sync::Arc<loom::sync::atomic::AtomicUsize>>>);
impl Drop for TlsProbe {
    fn drop(&mut self) {
        if let Some(a) = self.0.borrow_mut().take() {
            a.fetch_add(1, std::sync::atomic::Ordering::Relaxed);
        }
    }
}
loom::thread_local! {
    static TLS_PROBE: TlsProbe = TlsProbe(std::cell::RefCell::new(None));
}

pub struct Objs {
    tls_atom: Option<loom::sync::Arc<loom::sync::atomic::AtomicUsize>>,
    mutex: [loom::sync::Mutex<i64>; 2],
    rw: loom::sync::RwLock<i64>,
    cv: loom::sync::Condvar,
    atoms: [loom::sync::atomic::AtomicUsize; 2],
    notify: loom::sync::Notify,
    cells: CellsSync,
    tx: Vec<loom::sync::mpsc::Sender<u8>>,
    threads: SM<Vec<Option<loom::thread::Thread>>>,
}

enum Handle {
    Std(Arc<Objs>),
    Loom(loom::sync::Arc<Objs>),
}
impl Handle {
    fn get(&self) -> &Objs {
        match self {
            Handle::Std(a) => a,
            Handle::Loom(a) => a,
        }
    }
    fn dup(&self) -> Handle {
        match self {
            Handle::Std(a) => Handle::Std(a.clone()),
            Handle::Loom(a) => Handle::Loom(a.clone()),
        }
    }
    fn cleanup(&self) -> CleanupOnUnwind {
        match self {
            Handle::Std(a) => CleanupOnUnwind(Some(a.clone())),
            Handle::Loom(_) => CleanupOnUnwind(None),
        }
    }
}

/// Every thread owns a value whose destructor "cleans up" with a loom operation when the thread unwinds (a hand-written
/// guard that releases with an atomic store): it runs while the model fails - on the stack of the thread that panicked
/// or noticed the deadlock, or inside the closure of a thread that was spawned but never started. It does nothing on
/// the normal path.
struct CleanupOnUnwind(Option<Arc<Objs>>);
impl Drop for CleanupOnUnwind {
    fn drop(&mut self) {
        if std::thread::panicking() {
            if let Some(o) = &self.0 {
                // a read-modify-write, a load and a store: the first two are decisions of their own (which store is read)
                o.atoms[1].fetch_add(1, std::sync::atomic::Ordering::SeqCst);
                let _ = o.atoms[1].load(std::sync::atomic::Ordering::SeqCst);
                o.atoms[1].store(9, std::sync::atomic::Ordering::SeqCst);
                // what a destructor that believes it has exclusive access does; during an unwind other threads may still
                // be using the atomic, and a second panic (a race report) would kill the process
                let _ = unsafe { o.atoms[0].unsync_load() };
            }
        }
    }
}

pub type SLog = Vec<(u8, u8, i64)>;

#[derive(Default)]
pub struct IterState {
    pub log: SLog,
    pub res: Vec<Vec<i64>>,
    pub counters: [i64; 2],
}

enum RwGuard {
    R(loom::sync::RwLockReadGuard<'static, i64>),
    W(loom::sync::RwLockWriteGuard<'static, i64>),
}

type RxBack = Option<loom::sync::mpsc::Receiver<u8>>;

fn exec(p: &SProg, t: usize, o: &Objs, rx: &mut Option<loom::sync::mpsc::Receiver<u8>>, handles: &mut Vec<Option<loom::thread::JoinHandle<RxBack>>>, it: &SM<IterState>, rx_back: &mut Vec<loom::sync::mpsc::Receiver<u8>>) {
    use std::sync::atomic::Ordering::SeqCst;
    let mut guards: [Option<loom::sync::MutexGuard<'static, i64>>; 2] = [None, None];
    let mut rwg: Option<RwGuard> = None;
    let mut last: Option<i64> = None;
    let mut pc = 0usize;
    while pc < p.threads[t].len() {
        let op = &p.threads[t][pc];
        let mut res: i64 = i64::MIN;
        let mut skip = 0usize;
        match *op {
            SOp::Lock(m) => {
                let g = o.mutex[m as usize].lock().unwrap();
                guards[m as usize] = Some(unsafe { std::mem::transmute::<loom::sync::MutexGuard<'_, i64>, loom::sync::MutexGuard<'static, i64>>(g) });
            }
            SOp::Unlock(m) => {
                guards[m as usize] = None;
            }
            SOp::TryLock(m) => {
                let r = o.mutex[m as usize].try_lock();
                res = r.is_ok() as i64;
                if let Ok(g) = r {
                    guards[m as usize] = Some(unsafe { std::mem::transmute::<loom::sync::MutexGuard<'_, i64>, loom::sync::MutexGuard<'static, i64>>(g) });
                }
            }
            SOp::Incr(m) => {
                if let Some(g) = guards[m as usize].as_mut() {
                    **g += 1;
                }
            }
            SOp::Read => {
                let g = o.rw.read().unwrap();
                rwg = Some(RwGuard::R(unsafe { std::mem::transmute::<loom::sync::RwLockReadGuard<'_, i64>, loom::sync::RwLockReadGuard<'static, i64>>(g) }));
            }
            SOp::Write => {
                let g = o.rw.write().unwrap();
                rwg = Some(RwGuard::W(unsafe { std::mem::transmute::<loom::sync::RwLockWriteGuard<'_, i64>, loom::sync::RwLockWriteGuard<'static, i64>>(g) }));
            }
            SOp::TryRead => {
                let r = o.rw.try_read();
                res = r.is_ok() as i64;
                if let Ok(g) = r {
                    rwg = Some(RwGuard::R(unsafe { std::mem::transmute::<loom::sync::RwLockReadGuard<'_, i64>, loom::sync::RwLockReadGuard<'static, i64>>(g) }));
                }
            }
            SOp::TryWrite => {
                let r = o.rw.try_write();
                res = r.is_ok() as i64;
                if let Ok(g) = r {
                    rwg = Some(RwGuard::W(unsafe { std::mem::transmute::<loom::sync::RwLockWriteGuard<'_, i64>, loom::sync::RwLockWriteGuard<'static, i64>>(g) }));
                }
            }
            SOp::RwUnlock => {
                rwg = None;
            }
            SOp::TryReadNested => {
                let r = o.rw.try_read();
                res = r.is_ok() as i64;
                if let Ok(g) = r {
                    let second = RwGuard::R(unsafe { std::mem::transmute::<loom::sync::RwLockReadGuard<'_, i64>, loom::sync::RwLockReadGuard<'static, i64>>(g) });
                    let first = rwg.replace(second);
                    drop(first);
                }
            }
            SOp::Park => loom::thread::park(),
            SOp::Unpark(u) => {
                let th = o.threads.lock().unwrap()[u as usize].clone();
                if let Some(th) = th {
                    th.unpark();
                }
            }
            SOp::Join(u) => {
                if let Some(h) = handles[u as usize].take() {
                    if let Some(r) = h.join().unwrap() {
                        rx_back.push(r);
                    }
                }
            }
            SOp::Send(id) => {
                let _ = o.tx[t].send(id);
            }
            SOp::Recv => {
                res = rx.as_ref().unwrap().recv().map(|x| x as i64).unwrap_or(-2);
            }
            SOp::TryRecv => {
                res = rx.as_ref().unwrap().try_recv().map(|x| x as i64).unwrap_or(-1);
            }
            SOp::CvWait => {
                let g = guards[0].take().unwrap();
                let g = o.cv.wait(g).unwrap();
                guards[0] = Some(g);
            }
            SOp::CvWaitUntil(n) => {
                let mut g = guards[0].take().unwrap();
                while *g < n as i64 {
                    g = o.cv.wait(g).unwrap();
                }
                guards[0] = Some(g);
            }
            SOp::NotifyOne => o.cv.notify_one(),
            SOp::NotifyAll => o.cv.notify_all(),
            SOp::ALoad(x) => res = o.atoms[x as usize].load(SeqCst) as i64,
            SOp::AStore(x, v) => o.atoms[x as usize].store(v as usize, SeqCst),
            SOp::AwaitA(x, v) => {
                while o.atoms[x as usize].load(SeqCst) != v as usize {
                    loom::thread::yield_now();
                }
            }
            SOp::RLoad(x) => res = o.atoms[x as usize].load(std::sync::atomic::Ordering::Relaxed) as i64,
            SOp::RStore(x, v) => o.atoms[x as usize].store(v as usize, std::sync::atomic::Ordering::Relaxed),
            SOp::SkipUnlessLast(v, n) => {
                if last != Some(v) {
                    skip = n as usize;
                }
            }
            SOp::NWait => o.notify.wait(),
            SOp::NNotify => o.notify.notify(),
            SOp::CellW(c) => {
                let _t = TouchOnUnwind(&o.cells.0[c as usize]);
                o.cells.0[c as usize].with_mut(|p| unsafe { std::ptr::write_volatile(p, 1) })
            }
            SOp::CellR(c) => {
                let _t = TouchOnUnwind(&o.cells.0[c as usize]);
                o.cells.0[c as usize].with(|p| unsafe { std::ptr::read_volatile(p) });
            }
            SOp::Fail(id) => panic!("{}{}", USER_PANIC_PREFIX, id),
            SOp::FailInCell(id) => {
                // a private cell: the access itself cannot race, the panic strikes while the write (even ids) or read
                // (odd ids) guard is alive, and the cell's owner uses it once more while unwinding
                let c = loom::cell::UnsafeCell::new(0u64);
                let _t = TouchOnUnwind(&c);
                if id % 2 == 0 {
                    c.with_mut(|_| panic!("{}{}", USER_PANIC_PREFIX, id))
                } else {
                    c.with(|_| panic!("{}{}", USER_PANIC_PREFIX, id))
                }
            }
            SOp::FailInAtomicMut(id) => {
                let mut a = loom::sync::atomic::AtomicUsize::new(0);
                a.with_mut(|_| panic!("{}{}", USER_PANIC_PREFIX, id))
            }
            SOp::FailIfLast(id, v) => {
                if last == Some(v) {
                    panic!("{}{}", USER_PANIC_PREFIX, id)
                }
            }
            SOp::Yield => loom::thread::yield_now(),
            SOp::FailDropLock(id, m) => {
                let _on_drop = LockOnDrop(&o.mutex[m as usize]);
                panic!("{}{}", USER_PANIC_PREFIX, id)
            }
            SOp::DropRx => *rx = None,
            SOp::Tls => TLS_PROBE.with(|p| *p.0.borrow_mut() = o.tls_atom.clone()),
        }
        let mut s = it.lock().unwrap();
        if res != i64::MIN {
            s.res[t].push(res);
            last = Some(res);
        }
        s.log.push((t as u8, pc as u8, if res == i64::MIN { 0 } else { res }));
        drop(s);
        pc += 1 + skip;
    }
    drop(rwg);
    drop(guards);
}

#[derive(Clone, Debug, Default)]
pub struct SCfg {
    pub iter_cap: usize,
    pub max_branches: usize,
    pub preemption_bound: Option<usize>,
    pub keep_paths: bool,
    pub checkpoint_file: Option<String>,
    pub checkpoint_interval: Option<usize>,
    pub max_permutations: Option<usize>,
}

pub struct SRun {
    pub outcomes: BTreeSet<Term>,
    pub iters: usize,
    pub events: usize,
    pub orders: usize,
    pub panic: Option<String>,
    pub panic_file: String,
    pub replay_errors: Vec<String>,
    pub last_log: SLog,
    pub paths: Vec<Vec<loom::verif::Branch>>,
    pub hook_calls: usize,
    /// digest of (log, results) of every completed iteration, in order
    pub seq: Vec<u64>,
}

impl SRun {
    pub fn kind(&self) -> Option<PanicKind> {
        self.panic.as_ref().map(|m| classify(m))
    }
}

/// Runs `p` under the real loom; every iteration's log is replayed on the specification.
pub fn run_loom(p: &SProg, cfg: &SCfg) -> SRun {
    struct Acc {
        outcomes: BTreeSet<Term>,
        orders: HashSet<u64>,
        events: usize,
        replay_errors: Vec<String>,
        hook_calls: usize,
        paths: Vec<Vec<loom::verif::Branch>>,
        seq: Vec<u64>,
    }
    let acc = Arc::new(SM::new(Acc { outcomes: BTreeSet::new(), orders: HashSet::new(), events: 0, replay_errors: vec![], hook_calls: 0, paths: vec![], seq: vec![] }));
    let it: Arc<SM<IterState>> = Arc::new(SM::new(IterState::default()));
    let iters = Arc::new(std::sync::atomic::AtomicUsize::new(0));
    let p2 = Arc::new(p.clone());
    {
        // end of iteration: seal the log, replay it, record the outcome
        let (a2, it2, p3, keep) = (acc.clone(), it.clone(), p2.clone(), cfg.keep_paths);
        loom::verif::set_iteration_hook(Some(Box::new(move |b: &[loom::verif::Branch]| {
            let s = std::mem::take(&mut *it2.lock().unwrap());
            let mut a = a2.lock().unwrap();
            a.hook_calls += 1;
            a.events += s.log.len();
            if keep {
                a.paths.push(b.to_vec());
            }
            if a.replay_errors.len() < 3 {
                if let Err(e) = replay(&p3, &s.log, true) {
                    a.replay_errors.push(format!("{} ; log = {:?}", e, s.log));
                }
            }
            a.orders.insert(fnv(&format!("{:?}", s.log.iter().map(|e| (e.0, e.1)).collect::<Vec<_>>())));
            if keep {
                a.seq.push(fnv(&format!("{:?}{:?}", s.log, s.res)));
            }
            a.outcomes.insert(Term::Done(s.res, s.counters));
        })));
    }
    let (i2, it3) = (iters.clone(), it.clone());
    let cfg2 = cfg.clone();
    let res = std::panic::catch_unwind(std::panic::AssertUnwindSafe(|| {
        let mut b = loom::model::Builder::new();
        if cfg.max_branches > 0 {
            b.max_branches = cfg.max_branches;
        }
        b.preemption_bound = cfg.preemption_bound;
        if let Some(f) = &cfg.checkpoint_file {
            b.checkpoint_file = Some(f.into());
        }
        if let Some(i) = cfg.checkpoint_interval {
            b.checkpoint_interval = i;
        }
        b.max_permutations = cfg.max_permutations;
        b.check(move || {
            let n = p2.threads.len();
            if i2.fetch_add(1, std::sync::atomic::Ordering::Relaxed) >= cfg2.iter_cap {
                panic!("{}", ITER_CAP_MSG);
            }
            {
                let mut s = it3.lock().unwrap();
                *s = IterState::default();
                s.res = vec![Vec::new(); n];
            }
            let (tx, rx) = loom::sync::mpsc::channel::<u8>();
            let objs = Objs {
                tls_atom: if p2.has(|o| matches!(o, SOp::Tls)) { Some(loom::sync::Arc::new(loom::sync::atomic::AtomicUsize::new(0))) } else { None },
                mutex: [loom::sync::Mutex::new(0), loom::sync::Mutex::new(0)],
                rw: loom::sync::RwLock::new(0),
                cv: loom::sync::Condvar::new(),
                atoms: [loom::sync::atomic::AtomicUsize::new(0), loom::sync::atomic::AtomicUsize::new(0)],
                notify: loom::sync::Notify::new(),
                cells: CellsSync([loom::cell::UnsafeCell::new(0), loom::cell::UnsafeCell::new(0)]),
                tx: (0..n).map(|_| tx.clone()).collect(),
                threads: SM::new(vec![None; n]),
            };
            drop(tx);
            let h = if p2.loom_arc { Handle::Loom(loom::sync::Arc::new(objs)) } else { Handle::Std(Arc::new(objs)) };
            h.get().threads.lock().unwrap()[0] = Some(loom::thread::current());
            // every handle a child needs is created before the first spawn
            let dups: Vec<Handle> = (1..n).map(|_| h.dup()).collect();
            let mut handles: Vec<Option<loom::thread::JoinHandle<RxBack>>> = (0..n).map(|_| None).collect();
            let owner = (p2.rx_owner as usize).min(n - 1);
            let mut rx = Some(rx);
            for (t, hd) in (1..n).zip(dups) {
                let (p3, it4) = (p2.clone(), it3.clone());
                let mut my_rx = if t == owner { rx.take() } else { None };
                let cleanup = hd.cleanup();
                let jh = loom::thread::spawn(move || {
                    let _cleanup = cleanup;
                    let mut none: Vec<Option<loom::thread::JoinHandle<RxBack>>> = Vec::new();
                    let mut back = Vec::new();
                    exec(&p3, t, hd.get(), &mut my_rx, &mut none, &it4, &mut back);
                    drop(hd);
                    // the receiver goes back to main: it outlives every sender
                    my_rx
                });
                h.get().threads.lock().unwrap()[t] = Some(jh.thread().clone());
                handles[t] = Some(jh);
            }
            let mut rx_back: Vec<loom::sync::mpsc::Receiver<u8>> = Vec::new();
            let _cleanup = h.cleanup();
            exec(&p2, 0, h.get(), &mut rx, &mut handles, &it3, &mut rx_back);
            // main joins what it has not joined yet (keeps the receiver alive until every sender is done)
            for t in 1..n {
                if let Some(jh) = handles[t].take() {
                    if let Some(r) = jh.join().unwrap() {
                        rx_back.push(r);
                    }
                }
            }
            // (None when the program dropped it itself)
            let rx = rx.or_else(|| rx_back.pop());
            {
                let c0 = *h.get().mutex[0].lock().unwrap();
                let c1 = *h.get().mutex[1].lock().unwrap();
                it3.lock().unwrap().counters = [c0, c1];
            }
            if p2.forget_rx {
                std::mem::forget(rx);
            } else {
                drop(rx);
            }
            drop(h);
        });
    }));
    loom::verif::set_iteration_hook(None);
    let panic = res.err().map(panic_msg);
    let panic_file = if panic.is_some() { last_panic_file() } else { String::new() };
    let last = std::mem::take(&mut *it.lock().unwrap());
    let mut a = acc.lock().unwrap();
    let mut replay_errors = std::mem::take(&mut a.replay_errors);
    if panic.is_some() && !last.log.is_empty() {
        // the failing iteration's prefix must be valid too
        if let Err(e) = replay(p, &last.log, false) {
            replay_errors.push(format!("(failing iteration) {} ; log = {:?}", e, last.log));
        }
    }
    SRun {
        outcomes: std::mem::take(&mut a.outcomes),
        iters: iters.load(std::sync::atomic::Ordering::Relaxed),
        events: a.events + last.log.len(),
        orders: a.orders.len(),
        panic,
        panic_file,
        replay_errors,
        last_log: last.log,
        paths: std::mem::take(&mut a.paths),
        hook_calls: a.hook_calls,
        seq: std::mem::take(&mut a.seq),
    }
}

#[allow(dead_code)]
pub fn unused(_: HashMap<u8, u8>) {}
