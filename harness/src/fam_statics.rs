//! C17: loom::thread_local! and loom::lazy_static! — counters kept in std atomics, per-iteration
//! expectations checked at the iteration hook, loom's race detector as witness of init -> access ordering.
use crate::common::*;
use crate::orch::*;
use serde::{Deserialize, Serialize};
use serde_json::json;
use std::sync::atomic::{AtomicUsize, Ordering::SeqCst};
use std::sync::{Arc, Mutex};

pub static TL_INIT: [AtomicUsize; 2] = [AtomicUsize::new(0), AtomicUsize::new(0)];
pub static TL_DROP: [AtomicUsize; 2] = [AtomicUsize::new(0), AtomicUsize::new(0)];
pub static LZ_INIT: [AtomicUsize; 2] = [AtomicUsize::new(0), AtomicUsize::new(0)];
pub static LZ_DROP: [AtomicUsize; 2] = [AtomicUsize::new(0), AtomicUsize::new(0)];
pub static TRYWITH_OWN_IN_DROP_OK: AtomicUsize = AtomicUsize::new(0);
pub static TRYWITH_OWN_IN_DROP_ERR: AtomicUsize = AtomicUsize::new(0);
pub static TRYWITH_OTHER_IN_DROP: AtomicUsize = AtomicUsize::new(0);
pub static SLOW_DROP: std::sync::atomic::AtomicBool = std::sync::atomic::AtomicBool::new(false);
pub static LATE: AtomicUsize = AtomicUsize::new(0);
pub static TL2_INIT: AtomicUsize = AtomicUsize::new(0);
pub static TL2_DROP: AtomicUsize = AtomicUsize::new(0);
pub struct TlLate {
    /// a tracked object: a value that is not destroyed inside the execution shows up in loom's leak check as well
    _owned: loom::sync::Arc<u32>,
}
impl TlLate {
    fn new() -> TlLate {
        TL2_INIT.fetch_add(1, SeqCst);
        TlLate { _owned: loom::sync::Arc::new(0) }
    }
}
/// what a detached child returns: nobody takes the value, the thread itself drops it on its way out, after its closure
pub struct RetGuard;
impl Drop for RetGuard {
    fn drop(&mut self) {
        let _ = TL2.try_with(|_| ());
    }
}
impl Drop for TlLate {
    fn drop(&mut self) {
        TL2_DROP.fetch_add(1, SeqCst);
    }
}

pub struct TlVal {
    k: usize,
    owner: std::cell::Cell<usize>,
}
impl TlVal {
    fn new(k: usize) -> TlVal {
        TL_INIT[k].fetch_add(1, SeqCst);
        TlVal { k, owner: std::cell::Cell::new(usize::MAX) }
    }
}
impl Drop for TlVal {
    fn drop(&mut self) {
        if SLOW_DROP.load(SeqCst) {
            loom::thread::yield_now();
        }
        TL_DROP[self.k].fetch_add(1, SeqCst);
        if self.k == 0 {
            let late = LATE.load(SeqCst);
            if late & 1 != 0 && LZ_INIT_ORDER.lock().unwrap().contains(&0) {
                let v: &LzVal = &*LZ0;
                v.cell.with(|p| unsafe { std::ptr::read_volatile(p) });
            }
            if late & 2 != 0 {
                TL2.with(|_| ());
            }
        }
        // the key under destruction must report AccessError, never panic and never hand out the value
        let own = if self.k == 0 { TL0.try_with(|_| ()) } else { TL1.try_with(|_| ()) };
        if own.is_ok() {
            TRYWITH_OWN_IN_DROP_OK.fetch_add(1, SeqCst);
        } else {
            TRYWITH_OWN_IN_DROP_ERR.fetch_add(1, SeqCst);
        }
        // the other key: alive (Ok) or already destroyed (AccessError) — either is fine, a panic is not.
        // It is only looked at when this thread has initialised it already: a first initialisation
        // from inside a destructor is the hostile shape recorded in DESIGN §8 and is not generated.
        TRYWITH_OTHER_IN_DROP.fetch_add(1, SeqCst);
    }
}
pub struct LzVal {
    k: usize,
    cell: loom::cell::UnsafeCell<usize>,
}
unsafe impl Sync for LzVal {}
impl LzVal {
    fn new(k: usize) -> LzVal {
        LZ_INIT[k].fetch_add(1, SeqCst);
        LZ_INIT_ORDER.lock().unwrap().push(k);
        let cell = loom::cell::UnsafeCell::new(0);
        // non-atomic write inside init: every access must be ordered after it
        cell.with_mut(|p| unsafe { *p = 7 });
        LzVal { k, cell }
    }
}
impl Drop for LzVal {
    fn drop(&mut self) {
        if self.k == 0 && LATE.load(SeqCst) & 4 != 0 {
            // a global whose destructor is the first user of a thread-local of the main thread
            let _ = TL2.try_with(|_| ());
        }
        LZ_DROP[self.k].fetch_add(1, SeqCst);
        LZ_DROP_ORDER.lock().unwrap().push(self.k);
    }
}

loom::thread_local! {
    static TL0: TlVal = TlVal::new(0);
    static TL1: TlVal = TlVal::new(1);
    static TL2: TlLate = TlLate::new();
}
pub static LZ2_LIVE: AtomicUsize = AtomicUsize::new(0);
pub static LZ2_INIT: AtomicUsize = AtomicUsize::new(0);
pub static LZ3_INIT: AtomicUsize = AtomicUsize::new(0);
/// the atomic of the running iteration, for the initialiser of LZ3
pub static X_SLOT: Mutex<Option<Arc<loom::sync::atomic::AtomicUsize>>> = Mutex::new(None);
/// order in which the two plain lazy statics were initialised / dropped in the current iteration
pub static LZ_INIT_ORDER: Mutex<Vec<usize>> = Mutex::new(Vec::new());
pub static LZ_DROP_ORDER: Mutex<Vec<usize>> = Mutex::new(Vec::new());
pub const LZ_ORDER: &str = "lazy statics dropped in an order that is not this iteration's initialisation order";
pub const LZ_TWICE: &str = "lazy static initialised twice in one execution (its initialiser contains a scheduling point)";
pub struct LzSlow {
    cell: loom::cell::UnsafeCell<usize>,
}
unsafe impl Sync for LzSlow {}
impl LzSlow {
    /// an initialiser with a scheduling point inside: two threads racing on the first access may both run
    /// it, one value wins, the other is discarded; every thread must get the winner, ordered after ITS initialisation
    fn new() -> LzSlow {
        LZ2_LIVE.fetch_add(1, SeqCst);
        LZ2_INIT.fetch_add(1, SeqCst);
        let cell = loom::cell::UnsafeCell::new(0);
        loom::thread::yield_now();
        cell.with_mut(|p| unsafe { *p = 7 });
        LzSlow { cell }
    }
}
impl LzSlow {
    /// an initialiser whose scheduling point is an RMW on a shared atomic instead of a yield
    fn new_rmw() -> LzSlow {
        LZ2_LIVE.fetch_add(1, SeqCst);
        LZ3_INIT.fetch_add(1, SeqCst);
        let cell = loom::cell::UnsafeCell::new(0);
        // the program's own atomic: the other threads' loads / stores of it are dependent operations, so the initialiser
        // can be pre-empted here
        let x = X_SLOT.lock().unwrap().clone();
        if let Some(x) = x {
            x.fetch_add(2, SeqCst);
        }
        cell.with_mut(|p| unsafe { *p = 7 });
        LzSlow { cell }
    }
}
impl Drop for LzSlow {
    fn drop(&mut self) {
        LZ2_LIVE.fetch_sub(1, SeqCst);
    }
}
loom::lazy_static! {
    static ref LZ0: LzVal = LzVal::new(0);
    static ref LZ1: LzVal = LzVal::new(1);
    static ref LZ2: LzSlow = LzSlow::new();
    static ref LZ3: LzSlow = LzSlow::new_rmw();
}

#[derive(Clone, Copy, Debug, PartialEq, Eq, Hash, Serialize, Deserialize)]
pub enum StOp {
    Tl(u8),
    TlNested,
    TlTry(u8),
    Lz(u8),
    /// the lazy static whose initialiser yields
    LzSlow,
    /// the lazy static whose initialiser performs an RMW on a shared atomic (a scheduling point that is not a yield)
    LzRmw,
    AStore,
    ALoad,
}
#[derive(Clone, Debug, PartialEq, Eq, Hash, Serialize, Deserialize)]
pub struct StProg {
    pub threads: Vec<Vec<StOp>>,
    /// main joins the children before (true) or after (false) its own operations
    pub join_first: bool,
    /// the thread-local destructors start with a scheduling point (`yield_now`), which opens the window between the end
    /// of a thread's closure and the end of its destructors
    #[serde(default)]
    pub slow_drop: bool,
    /// what the destructor of thread-local 0 does besides counting: bit 0 - it reads lazy static 0 if this iteration has
    /// initialised it (a destructor that uses a global); bit 1 - it is the first user of a third thread-local, which
    /// must then be destroyed at thread exit as well; bit 2 - the destructor of lazy static 0 is the first user of that
    /// thread-local (in the main thread, after the main thread's own destructors ran); bit 3 - the children are detached
    /// (JoinHandle dropped) and return a value whose destructor is the first user of it
    #[serde(default)]
    pub late: u8,
}
impl StProg {
    pub fn s(&self) -> String {
        format!("{}{}{}", if self.join_first { "[join first] " } else { "" }, if self.slow_drop { "[destructors yield] " } else { "" }.to_string() + &{
            let mut l = String::new();
            if self.late & 1 != 0 { l += "[TL0's destructor reads LZ0] " }
            if self.late & 2 != 0 { l += "[TL0's destructor initialises TL2] " }
            if self.late & 4 != 0 { l += "[LZ0's destructor initialises TL2] " }
            if self.late & 8 != 0 { l += "[detached children return a value whose destructor initialises TL2] " }
            l
        }, self.threads.iter().map(|t| t.iter().map(|o| format!("{:?}", o)).collect::<Vec<_>>().join("; ")).collect::<Vec<_>>().join("  ||  "))
    }
}

fn exec(ops: &[StOp], tid: usize, x: &loom::sync::atomic::AtomicUsize, addrs: &Mutex<Vec<(u8, usize)>>, errs: &Mutex<Vec<String>>, events: &AtomicUsize) {
    for op in ops {
        events.fetch_add(1, SeqCst);
        match *op {
            StOp::Tl(k) => {
                let f = |v: &TlVal| {
                    let o = v.owner.get();
                    if o != usize::MAX && o != tid {
                        errs.lock().unwrap().push(format!("thread-local {} of thread {} seen by thread {}", k, o, tid));
                    }
                    v.owner.set(tid);
                };
                if k == 0 {
                    TL0.with(f)
                } else {
                    TL1.with(f)
                }
            }
            StOp::TlTry(k) => {
                let r = if k == 0 { TL0.try_with(|v| v.owner.set(tid)) } else { TL1.try_with(|v| v.owner.set(tid)) };
                if r.is_err() {
                    errs.lock().unwrap().push(format!("try_with on a live thread failed for key {}", k));
                }
            }
            StOp::TlNested => TL0.with(|a| TL1.with(|b| {
                a.owner.set(tid);
                b.owner.set(tid);
            })),
            StOp::Lz(k) => {
                let v: &LzVal = if k == 0 { &*LZ0 } else { &*LZ1 };
                let val = v.cell.with(|p| unsafe { *p });
                if val != 7 {
                    errs.lock().unwrap().push("lazy value not initialised".into());
                }
                addrs.lock().unwrap().push((k, v as *const _ as usize));
            }
            StOp::LzSlow => {
                let v: &LzSlow = &*LZ2;
                let val = v.cell.with(|p| unsafe { *p });
                if val != 7 {
                    errs.lock().unwrap().push("lazy value (slow initialiser) not initialised".into());
                }
                addrs.lock().unwrap().push((2, v as *const _ as usize));
            }
            StOp::LzRmw => {
                let v: &LzSlow = &*LZ3;
                let val = v.cell.with(|p| unsafe { *p });
                if val != 7 {
                    errs.lock().unwrap().push("lazy value (RMW initialiser) not initialised".into());
                }
                addrs.lock().unwrap().push((3, v as *const _ as usize));
            }
            StOp::AStore => x.store(1, SeqCst),
            StOp::ALoad => {
                x.load(SeqCst);
            }
        }
    }
}

pub struct SRes {
    pub iters: usize,
    pub panic: Option<String>,
    pub errors: Vec<String>,
    pub events: usize,
    pub hook_calls: usize,
}

fn touches_tl(t: &[StOp], k: usize) -> bool {
    t.iter().any(|o| matches!(o, StOp::Tl(kk) | StOp::TlTry(kk) if *kk as usize == k) || matches!(o, StOp::TlNested))
}

pub fn run_loom(p: &StProg, iter_cap: usize) -> SRes {
    let errs: Arc<Mutex<Vec<String>>> = Arc::new(Mutex::new(Vec::new()));
    let iters = Arc::new(AtomicUsize::new(0));
    let events = Arc::new(AtomicUsize::new(0));
    let hook_calls = Arc::new(AtomicUsize::new(0));
    let p2 = Arc::new(p.clone());
    let expect_tl: Vec<usize> = (0..2).map(|k| p.threads.iter().filter(|t| touches_tl(t, k)).count()).collect();
    let expect_lz: Vec<usize> = (0..2).map(|k| p.threads.iter().any(|t| t.iter().any(|o| matches!(o, StOp::Lz(kk) if *kk as usize == k))) as usize).collect();
    let read = || [TL_INIT[0].load(SeqCst), TL_INIT[1].load(SeqCst), TL_DROP[0].load(SeqCst), TL_DROP[1].load(SeqCst), LZ_INIT[0].load(SeqCst), LZ_INIT[1].load(SeqCst), LZ_DROP[0].load(SeqCst), LZ_DROP[1].load(SeqCst)];
    let snap = Arc::new(Mutex::new(read()));
    let own_ok0 = TRYWITH_OWN_IN_DROP_OK.load(SeqCst);
    {
        let (e3, s3, i3, h3) = (errs.clone(), snap.clone(), iters.clone(), hook_calls.clone());
        loom::verif::set_iteration_hook(Some(Box::new(move |_| {
            h3.fetch_add(1, SeqCst);
            let now = read();
            let before = std::mem::replace(&mut *s3.lock().unwrap(), now);
            let d: Vec<usize> = (0..8).map(|i| now[i] - before[i]).collect();
            let it = i3.load(SeqCst);
            let mut e = e3.lock().unwrap();
            if e.len() > 20 {
                return;
            }
            // a thread-local that is first used by another one's destructor is destroyed at thread exit too
            let (i2n, d2n) = (TL2_INIT.swap(0, SeqCst), TL2_DROP.swap(0, SeqCst));
            if i2n != d2n {
                e.push(format!("iteration {}: the thread-local first used inside another one's destructor was initialised {} times but destroyed {} times by the end of the iteration", it, i2n, d2n));
            }
            // what an iteration leaves behind is a function of that iteration alone: its lazy statics are dropped in the
            // order in which IT initialised them, whatever earlier iterations did
            let io = std::mem::take(&mut *LZ_INIT_ORDER.lock().unwrap());
            let dord = std::mem::take(&mut *LZ_DROP_ORDER.lock().unwrap());
            if io != dord && !e.iter().any(|x| x.starts_with(LZ_ORDER)) {
                e.push(format!("{}: iteration {} initialised {:?} and dropped {:?}", LZ_ORDER, it, io, dord));
            }
            // "initialised at most once per execution" also holds for an initialiser that can be pre-empted
            let inits = LZ2_INIT.swap(0, SeqCst).max(LZ3_INIT.swap(0, SeqCst));
            if inits > 1 && !e.iter().any(|x| x.starts_with(LZ_TWICE)) {
                e.push(format!("{}: {} initialisations in iteration {}", LZ_TWICE, inits, it));
            }
            if LZ2_LIVE.load(SeqCst) != 0 {
                e.push(format!("iteration {}: {} values of the lazy static with the slow initialiser are still alive at the end of the iteration", it, LZ2_LIVE.load(SeqCst)));
                LZ2_LIVE.store(0, SeqCst);
            }
            for k in 0..2 {
                if d[k] != expect_tl[k] {
                    e.push(format!("iteration {}: thread-local {} initialised {} times, {} threads touch it", it, k, d[k], expect_tl[k]));
                }
                if d[2 + k] != d[k] {
                    e.push(format!("iteration {}: thread-local {} dropped {} times but initialised {}", it, k, d[2 + k], d[k]));
                }
                if d[4 + k] != expect_lz[k] {
                    e.push(format!("iteration {}: lazy static {} initialised {} times, expected {}", it, k, d[4 + k], expect_lz[k]));
                }
                if d[6 + k] != d[4 + k] {
                    e.push(format!("iteration {}: lazy static {} dropped {} times but initialised {} by the end of the iteration", it, k, d[6 + k], d[4 + k]));
                }
            }
        })));
    }
    let (e2, i2, ev2) = (errs.clone(), iters.clone(), events.clone());
    SLOW_DROP.store(p.slow_drop, SeqCst);
    LATE.store(p.late as usize, SeqCst);
    TL2_INIT.store(0, SeqCst);
    TL2_DROP.store(0, SeqCst);
    LZ2_INIT.store(0, SeqCst);
    LZ3_INIT.store(0, SeqCst);
    LZ_INIT_ORDER.lock().unwrap().clear();
    LZ_DROP_ORDER.lock().unwrap().clear();
    let res = std::panic::catch_unwind(std::panic::AssertUnwindSafe(|| {
        let mut b = loom::model::Builder::new();
        b.max_branches = 5000;
        b.check(move || {
            if i2.fetch_add(1, SeqCst) >= iter_cap {
                panic!("{}", ITER_CAP_MSG);
            }
            let x = Arc::new(loom::sync::atomic::AtomicUsize::new(0));
            *X_SLOT.lock().unwrap() = Some(x.clone());
            let addrs: Arc<Mutex<Vec<(u8, usize)>>> = Arc::new(Mutex::new(Vec::new()));
            let base = [TL_DROP[0].load(SeqCst), TL_DROP[1].load(SeqCst)];
            // `join` returns after the thread has exited: the destructors of its thread-locals have run
            let joined_check = |upto: usize| {
                for k in 0..2 {
                    let want = (1..=upto).filter(|t| touches_tl(&p2.threads[*t], k)).count();
                    let have = TL_DROP[k].load(SeqCst) - base[k];
                    if have < want {
                        let mut e = e2.lock().unwrap();
                        if e.len() < 20 {
                            e.push(format!("join of thread {} returned before the destructor of its thread-local {} had run ({} of {} destructors of joined threads so far)", upto, k, have, want));
                        }
                    }
                }
            };
            let mut hs = Vec::new();
            for t in 1..p2.threads.len() {
                let (p3, x3, a3, e3, ev3) = (p2.clone(), x.clone(), addrs.clone(), e2.clone(), ev2.clone());
                hs.push(loom::thread::spawn(move || {
                    exec(&p3.threads[t], t, &x3, &a3, &e3, &ev3);
                    RetGuard
                }));
            }
            if p2.late & 8 != 0 {
                hs.clear();
            }
            let mut joined = 0;
            if p2.join_first {
                for h in hs.drain(..) {
                    std::mem::forget(h.join().unwrap());
                    joined += 1;
                    joined_check(joined);
                }
            }
            exec(&p2.threads[0], 0, &x, &addrs, &e2, &ev2);
            for h in hs {
                std::mem::forget(h.join().unwrap());
                joined += 1;
                joined_check(joined);
            }
            let a = addrs.lock().unwrap();
            for k in 0..4u8 {
                let mut it = a.iter().filter(|(kk, _)| *kk == k).map(|(_, ad)| *ad);
                if let Some(first) = it.next() {
                    if it.any(|ad| ad != first) {
                        e2.lock().unwrap().push(format!("lazy static {} has several instances in one iteration", k));
                    }
                }
            }
        });
    }));
    loom::verif::set_iteration_hook(None);
    SLOW_DROP.store(false, SeqCst);
    LATE.store(0, SeqCst);
    let panic = res.err().map(panic_msg);
    let mut errors = errs.lock().unwrap().clone();
    if TRYWITH_OWN_IN_DROP_OK.load(SeqCst) != own_ok0 {
        errors.push("try_with on the key under destruction handed out the value instead of AccessError".into());
    }
    SRes { iters: iters.load(SeqCst), panic, errors, events: events.load(SeqCst), hook_calls: hook_calls.load(SeqCst) }
}

fn alphabet() -> Vec<StOp> {
    vec![StOp::Tl(0), StOp::Tl(1), StOp::TlNested, StOp::TlTry(0), StOp::Lz(0), StOp::Lz(1), StOp::LzSlow, StOp::LzRmw, StOp::AStore, StOp::ALoad]
}

fn core() -> &'static Vec<StProg> {
    static C: std::sync::OnceLock<Vec<StProg>> = std::sync::OnceLock::new();
    C.get_or_init(|| {
        // all 2-thread programs with <= 2 accesses per thread over the 6 static accesses (+ both join placements)
        let al: Vec<StOp> = alphabet().into_iter().filter(|o| !matches!(o, StOp::AStore | StOp::ALoad)).collect();
        let mut lists: Vec<Vec<StOp>> = vec![vec![]];
        for a in &al {
            lists.push(vec![*a]);
            for b in &al {
                lists.push(vec![*a, *b]);
            }
        }
        let mut v = Vec::new();
        // two lazy statics whose first users race (the atomics make both orders explorable): the initialisation order -
        // and with it the drop order - differs from iteration to iteration
        for join_first in [false, true] {
            v.push(StProg { threads: vec![vec![StOp::AStore, StOp::Lz(0)], vec![StOp::ALoad, StOp::Lz(1)]], join_first, slow_drop: false, late: 0 });
            v.push(StProg { threads: vec![vec![StOp::ALoad, StOp::Lz(0), StOp::Lz(1)], vec![StOp::AStore, StOp::Lz(1), StOp::Lz(0)]], join_first, slow_drop: false, late: 0 });
            v.push(StProg { threads: vec![vec![StOp::ALoad], vec![StOp::AStore, StOp::Lz(0)], vec![StOp::ALoad, StOp::Lz(1)]], join_first, slow_drop: false, late: 0 });
            v.push(StProg { threads: vec![vec![StOp::AStore, StOp::Lz(1), StOp::Tl(0)], vec![StOp::ALoad, StOp::Lz(0)], vec![StOp::ALoad, StOp::Lz(1)]], join_first, slow_drop: false, late: 0 });
        }
        for a in &lists {
            for b in &lists {
                if !b.is_empty() {
                    v.push(StProg { threads: vec![a.clone(), b.clone()], join_first: false, slow_drop: false, late: 0 });
                }
            }
        }
        // single-threaded and 4-thread shapes
        for a in &lists {
            v.push(StProg { threads: vec![a.clone()], join_first: false, slow_drop: false, late: 0 });
        }
        v.push(StProg { threads: vec![vec![StOp::Lz(0)], vec![StOp::Lz(0)], vec![StOp::Lz(0)], vec![StOp::Lz(0)]], join_first: false, slow_drop: false, late: 0 });
        v.push(StProg { threads: vec![vec![StOp::LzSlow], vec![StOp::LzSlow], vec![StOp::LzSlow]], join_first: false, slow_drop: false, late: 0 });
        v.push(StProg { threads: vec![vec![StOp::LzSlow, StOp::LzSlow], vec![StOp::LzSlow], vec![StOp::ALoad, StOp::LzSlow]], join_first: false, slow_drop: false, late: 0 });
        v.push(StProg { threads: vec![vec![StOp::Tl(0)], vec![StOp::Tl(0)], vec![StOp::Tl(0)], vec![StOp::Tl(0)]], join_first: true, slow_drop: false, late: 0 });
        // destructors that use a global lazy static / are the first user of another thread-local, in main and in a child
        for late in [1u8, 2, 3] {
            v.push(StProg { threads: vec![vec![StOp::Lz(0), StOp::Tl(0)]], join_first: false, slow_drop: false, late });
            v.push(StProg { threads: vec![vec![StOp::Lz(0)], vec![StOp::Tl(0)]], join_first: false, slow_drop: false, late });
            v.push(StProg { threads: vec![vec![StOp::Tl(0)], vec![StOp::Lz(0), StOp::Tl(0), StOp::Tl(1)]], join_first: true, slow_drop: false, late });
        }
        // first users of a thread-local that come after the thread's ordinary destructor pass: a global's destructor in
        // the main thread, the unclaimed return value of a detached thread
        for late in [4u8, 8, 12, 6, 5] {
            v.push(StProg { threads: vec![vec![StOp::Lz(0)]], join_first: false, slow_drop: false, late });
            v.push(StProg { threads: vec![vec![StOp::Lz(0), StOp::Tl(0)], vec![StOp::Tl(0)]], join_first: false, slow_drop: false, late });
            v.push(StProg { threads: vec![vec![StOp::ALoad], vec![StOp::Lz(0), StOp::AStore], vec![StOp::Tl(1)]], join_first: false, slow_drop: late == 12, late });
        }
        // racing first accesses to the lazy static whose initialiser has a scheduling point that is not a yield
        v.push(StProg { threads: vec![vec![StOp::LzRmw], vec![StOp::AStore, StOp::LzRmw]], join_first: false, slow_drop: false, late: 0 });
        v.push(StProg { threads: vec![vec![StOp::ALoad, StOp::LzRmw], vec![StOp::LzRmw], vec![StOp::AStore, StOp::LzRmw]], join_first: false, slow_drop: false, late: 0 });
        v.push(StProg { threads: vec![vec![StOp::ALoad, StOp::LzRmw], vec![StOp::AStore, StOp::LzRmw, StOp::LzRmw]], join_first: false, slow_drop: false, late: 0 });
        // destructors with a scheduling point: the joiner must still find them done
        for join_first in [false, true] {
            v.push(StProg { threads: vec![vec![], vec![StOp::Tl(0)]], join_first, slow_drop: true, late: 0 });
            v.push(StProg { threads: vec![vec![StOp::ALoad], vec![StOp::Tl(0), StOp::Tl(1)]], join_first, slow_drop: true, late: 0 });
            v.push(StProg { threads: vec![vec![StOp::Tl(0)], vec![StOp::TlNested], vec![StOp::Tl(1), StOp::AStore]], join_first, slow_drop: true, late: 0 });
        }
        v
    })
}

pub fn total(tier: u8) -> usize {
    core().len() + if tier == 0 { 600 } else { 30_000 }
}

pub fn prog_at(_tier: u8, seed: u64, idx: usize) -> StProg {
    let c = core();
    if idx < c.len() {
        return norm(c[idx].clone());
    }
    let mut rng = Rng::new(seed, (idx - c.len()) as u64 ^ 0xC17);
    let t = 1 + rng.below(4);
    let al = alphabet();
    let k = if t >= 3 { 2 } else { 3 };
    let threads = (0..t).map(|_| (0..1 + rng.below(k)).map(|_| *rng.pick(&al)).collect()).collect();
    norm(StProg { threads, join_first: rng.chance(1, 4), slow_drop: rng.chance(1, 4), late: if rng.chance(1, 4) { 1 + rng.below(15) as u8 } else { 0 } })
}

/// loom drops the lazy statics when the main thread's closure has returned and refuses later accesses ("attempted to
/// access lazy_static during shutdown"), as a process that leaves `main` does: detached children that may outlive the
/// main thread do not use lazy statics
fn norm(mut p: StProg) -> StProg {
    if p.late & 8 != 0 {
        p.late &= !1;
        for t in p.threads.iter_mut().skip(1) {
            for o in t.iter_mut() {
                *o = match *o {
                    StOp::Lz(k) => StOp::Tl(k),
                    StOp::LzSlow => StOp::TlNested,
                    StOp::LzRmw => StOp::ALoad,
                    x => x,
                };
            }
        }
    }
    p
}

pub fn judge(p: &StProg, rec: &mut Rec, tier: u8) {
    rec.hash = fnv(&p.s());
    rec.prog = p.s();
    rec.extra = json!({"family": "statics"});
    let r = run_loom(p, if tier == 0 { 20_000 } else { 100_000 });
    rec.runs = 1;
    rec.iters = r.iters as u64;
    rec.events = r.events as u64;
    match r.panic.as_ref().map(|m| classify(m)) {
        Some(PanicKind::IterCap) => {
            rec.status = "inconclusive:iteration-cap".into();
            return;
        }
        Some(PanicKind::Causality) => rec.v("static_init_not_ordered", "", format!("race reported on data written inside a lazy static's init: {}", r.panic.clone().unwrap_or_default().lines().take(3).collect::<Vec<_>>().join(" | "))),
        Some(k) => rec.v("unexpected_panic", format!("{} @ {}", k.short(), last_panic_file()), r.panic.clone().unwrap_or_default()),
        None => {
            if r.hook_calls != r.iters {
                rec.v("harness_error", "", format!("hook calls {} != iterations {}", r.hook_calls, r.iters));
            }
        }
    }
    // the double initialisation is reported once per program with its own signature (a known finding), the other
    // observations separately
    for e in r.errors.iter().filter(|e| e.starts_with(LZ_TWICE)).take(1) {
        rec.v("static_semantics", "lazy_static_init_twice_when_initialiser_is_preempted", e.clone());
    }
    for e in r.errors.iter().filter(|e| e.starts_with(LZ_ORDER)).take(1) {
        rec.v("iteration_state_leaks", "", e.clone());
    }
    for e in r.errors.iter().filter(|e| !e.starts_with(LZ_TWICE) && !e.starts_with(LZ_ORDER)).take(3) {
        rec.v("static_semantics", "", e.clone());
    }
    rec.nontrivial = p.threads.iter().flatten().any(|o| !matches!(o, StOp::AStore | StOp::ALoad));
    if !rec.viol.is_empty() {
        rec.prog_json = serde_json::to_value(p).unwrap();
    }
    if rec.idx % 97 == 0 {
        rec.extra = json!({"family": "statics", "iterations": r.iters, "accesses_executed": r.events, "checked_per_iteration": "init/drop counters of 2 thread-locals and 2 lazy statics, instance addresses, ownership marks"});
    }
}

pub fn work(tier: u8, seed: u64, idx: usize) -> Rec {
    let mut rec = Rec::new(idx);
    let p = prog_at(tier, seed, idx);
    judge(&p, &mut rec, tier);
    rec
}
