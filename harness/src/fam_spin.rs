//! C18: spin loops that yield. One await loop (`load; yield_now` / `hint::spin_loop`) per waiter,
//! never two threads spinning at once; the reference treats an await as a blocking read that may
//! return any allowed non-zero value.
use crate::common::*;
use crate::lit::*;
use crate::orch::*;
use crate::rc11::*;
use serde_json::json;
use std::collections::BTreeSet;

fn core() -> &'static Vec<Prog> {
    static C: std::sync::OnceLock<Vec<Prog>> = std::sync::OnceLock::new();
    C.get_or_init(|| {
        use Ord_::*;
        let mut v = Vec::new();
        let st = |loc, val, ord| Op::Store { loc, val, ord };
        let ld = |loc, ord| Op::Load { loc, ord };
        for &so in &STORE_ORDS {
            for &lo in &LOAD_ORDS {
                for spin_hint in [false, true] {
                    let aw = |loc, ord| Op::Await { loc, ord, spin_hint, min: 1, ann: None };
                    // flag written once; data before it
                    v.push(Prog { nlocs: 2, pre: vec![], threads: vec![vec![aw(0, lo), ld(1, Rlx)], vec![st(1, 5, Rlx), st(0, 1, so)]] });
                    // awaited location written twice: both exit values must be explored
                    v.push(Prog { nlocs: 1, pre: vec![], threads: vec![vec![aw(0, lo)], vec![st(0, 1, so), st(0, 2, so)]] });
                    // two writers
                    v.push(Prog { nlocs: 1, pre: vec![], threads: vec![vec![aw(0, lo), ld(0, lo)], vec![st(0, 1, so)], vec![st(0, 2, so)]] });
                    // two waiters in sequence (a chain)
                    v.push(Prog { nlocs: 2, pre: vec![], threads: vec![vec![st(0, 1, so)], vec![aw(0, lo), st(1, 2, so)], vec![aw(1, lo), ld(0, Rlx)]] });
                    // two awaits in sequence in a child, both flags written by main, which then waits in join: the second
                    // and later yields happen while no other thread can run
                    v.push(Prog { nlocs: 2, pre: vec![], threads: vec![vec![st(0, 1, so), st(1, 1, so)], vec![aw(0, lo), aw(1, lo)]] });
                    v.push(Prog { nlocs: 2, pre: vec![], threads: vec![vec![], vec![aw(0, lo), aw(1, lo), ld(0, Rlx)], vec![st(1, 1, so), st(0, 1, so)]] });
                    // the waiter is a child that reads another location after the loop; main is the only other thread
                    v.push(Prog { nlocs: 2, pre: vec![], threads: vec![vec![st(1, 5, Rlx), st(0, 1, so)], vec![aw(0, lo), ld(1, Rlx)]] });
                    v.push(Prog { nlocs: 2, pre: vec![], threads: vec![vec![st(1, 5, Rlx), st(0, 1, so), st(0, 2, so)], vec![aw(0, lo), ld(1, Rlx), ld(0, Rlx)]] });
                    // the waiter is a child, main writes after another access
                    v.push(Prog { nlocs: 2, pre: vec![], threads: vec![vec![ld(1, Rlx), st(0, 1, so)], vec![aw(0, lo), st(1, 7, Rlx)]] });
                }
            }
        }
        // loops with a body that announces the wait (`w.store(1)` after a failed check): another thread sees both the
        // announcement and what the waiter does after the loop. The first one is the pinned witness of the known finding.
        for &lo in &LOAD_ORDS {
            for spin_hint in [false, true] {
                let awa = |loc, ord, w| Op::Await { loc, ord, spin_hint, min: 1, ann: Some(w) };
                v.push(Prog { nlocs: 3, pre: vec![], threads: vec![vec![ld(0, Sc), ld(2, Rlx)], vec![awa(1, lo, 2), st(0, 7, Sc)], vec![st(1, 42, Sc)]] });
                v.push(Prog { nlocs: 3, pre: vec![], threads: vec![vec![st(1, 5, Rlx), st(0, 1, Rel)], vec![awa(0, lo, 2), ld(1, Rlx)], vec![ld(2, Rlx), ld(0, Rlx)]] });
                v.push(Prog { nlocs: 2, pre: vec![], threads: vec![vec![ld(1, Rlx), st(0, 1, Rel), ld(1, Acq)], vec![awa(0, lo, 1)]] });
                v.push(Prog { nlocs: 2, pre: vec![], threads: vec![vec![awa(0, lo, 1), ld(1, Rlx)], vec![ld(1, Rlx), st(0, 1, Rlx)]] });
            }
        }
        // never-true loops: must be reported, not silently cut off
        v.push(Prog { nlocs: 1, pre: vec![], threads: vec![vec![Op::Await { loc: 0, ord: Acq, spin_hint: false, min: 1, ann: None }], vec![ld(0, Rlx)]] });
        v.push(Prog { nlocs: 2, pre: vec![], threads: vec![vec![Op::Await { loc: 0, ord: Rlx, spin_hint: true, min: 1, ann: None }], vec![st(1, 1, Rel)]] });
        v.push(Prog { nlocs: 1, pre: vec![], threads: vec![vec![], vec![Op::Await { loc: 0, ord: Sc, spin_hint: false, min: 1, ann: None }]] });
        v
    })
}

pub fn total(tier: u8) -> usize {
    core().len() + if tier == 0 { 500 } else { 4_000 }
}

pub fn prog_at(_tier: u8, seed: u64, idx: usize) -> Prog {
    let c = core();
    if idx < c.len() {
        return c[idx].clone();
    }
    let mut rng = Rng::new(seed, idx as u64 ^ 0xC18);
    let a = Alpha { nlocs: 2, rmw: true, cas: false, fadd: false, fences: false, sc_only: false };
    loop {
        let nt = 2 + rng.below(2);
        let mut p = random_prog(&mut rng, nt, 2, 2, 4, a);
        let waiter = rng.below(nt);
        let loc = rng.below(2) as u8;
        let pos = rng.below(p.threads[waiter].len() + 1);
        p.threads[waiter].insert(pos, Op::Await { loc, ord: *rng.pick(&LOAD_ORDS), spin_hint: rng.chance(1, 4), min: 1, ann: None });
        let writer = (waiter + 1 + rng.below(nt - 1)) % nt;
        if rng.chance(7, 8) {
            let wpos = rng.below(p.threads[writer].len() + 1);
            p.threads[writer].insert(wpos, Op::Store { loc, val: 40 + writer as u64, ord: *rng.pick(&STORE_ORDS) });
        }
        // a loop body that announces the wait on a location of its own, read by another thread; every spin stores again,
        // and a spin needs a step of another thread in between: with at most 5 foreign operations the announcements stay
        // within loom's store history (MAX_ATOMIC_HISTORY)
        let foreign: usize = p.threads.iter().enumerate().filter(|(t, _)| *t != waiter).map(|(_, o)| o.len()).sum();
        if foreign <= 4 && rng.chance(1, 3) {
            p.nlocs = 3;
            for o in p.threads[waiter].iter_mut() {
                if let Op::Await { ann, .. } = o {
                    *ann = Some(2);
                }
            }
            let reader = (waiter + 1 + rng.below(nt - 1)) % nt;
            let rpos = rng.below(p.threads[reader].len() + 1);
            p.threads[reader].insert(rpos, Op::Load { loc: 2, ord: *rng.pick(&LOAD_ORDS) });
        }
        if p.stores_per_loc_ok(5) {
            return p;
        }
    }
}

fn fmt_set(s: &BTreeSet<Vec<u64>>, max: usize) -> String {
    let mut v: Vec<String> = s.iter().take(max).map(|o| format!("{:?}", o)).collect();
    if s.len() > max {
        v.push(format!("…(+{})", s.len() - max));
    }
    v.join(" ")
}

pub fn judge(p: &Prog, rec: &mut Rec, tier: u8) {
    rec.hash = p.hash();
    rec.prog = p.s();
    rec.extra = json!({"family": "spin"});
    let (sc, stuck) = outcomes_sc(p);
    let has_ann = p.threads.iter().flatten().any(|o| matches!(o, Op::Await { ann: Some(_), .. }));
    let cfg = Cfg { iter_cap: if tier == 0 { 150_000 } else { 600_000 }, max_branches: Some(300), record_spun: true, ..Default::default() };
    let mut r = run(p, &cfg);
    // outcomes as loom produced them, with the "spun at least once" bit of every await; the checks against the plain
    // reference use the values alone
    let with_bits = std::mem::take(&mut r.outcomes);
    r.outcomes = with_bits.iter().map(|o| o.iter().map(|v| if *v == u64::MAX { *v } else { v & !SPUN_BIT }).collect()).collect();
    rec.runs = 1;
    rec.iters = r.iters as u64;
    rec.events = r.events as u64;
    rec.outcomes = r.outcomes.len() as u64;
    let k = r.kind();
    if k == Some(PanicKind::IterCap) {
        rec.status = "inconclusive:iteration-cap".into();
        return;
    }
    if stuck {
        // in some interleaving the awaited condition never becomes true: loom must report it (branch limit or deadlock), not return normally
        match k {
            Some(PanicKind::BranchLimit) | Some(PanicKind::Deadlock) => {}
            None => rec.v("spin_cut_off", "", format!("the loop can spin for ever in some execution, but loom::model returned normally after {} iterations", r.iters)),
            Some(other) => rec.v("unexpected_panic", other.short(), r.panic.clone().unwrap_or_default()),
        }
        rec.nontrivial = true;
    } else {
        match k {
            Some(PanicKind::BranchLimit) => rec.v("spin_no_progress", "", "the awaited condition is established in every execution, yet the model hit the branch limit".to_string()),
            Some(other) => rec.v("unexpected_panic", other.short(), r.panic.clone().unwrap_or_default()),
            None if has_ann => {
                // a loop body publishes "spun": only the references that distinguish spun from not spun apply
                rec.nontrivial = true;
                spun_check(p, &with_bits, rec, true);
            }
            None => {
                let mut st = Stats { budget: 400_000, ..Default::default() };
                match allowed(p, Variant::Strong, &mut st) {
                    Ok(strong) => {
                        let miss: BTreeSet<_> = strong.difference(&r.outcomes).cloned().collect();
                        if !miss.is_empty() {
                            // same history signatures as C02 (a known finding there is one here)
                            let mut sig: Option<Vec<&str>> = None;
                            for o in &miss {
                                let mut st2 = Stats { budget: 2_000_000, ..Default::default() };
                                let f = shared_features(p, o, Variant::Strong, &mut st2).unwrap_or_default();
                                sig = Some(match sig {
                                    None => f,
                                    Some(prev) => prev.into_iter().filter(|x| f.contains(x)).collect(),
                                });
                            }
                            rec.v("spin_missing_exit", sig.unwrap_or_default().join("+"), format!("exit/continuation values never produced: {} ; loom produced {} in {} iterations", fmt_set(&miss, 6), fmt_set(&r.outcomes, 10), r.iters));
                        }
                        rec.nontrivial = strong.len() >= 2;
                    }
                    Err(Budget) => {
                        let miss: BTreeSet<_> = sc.difference(&r.outcomes).cloned().collect();
                        if !miss.is_empty() {
                            rec.v("spin_missing_exit", "", format!("interleaving outcomes never produced: {}", fmt_set(&miss, 6)));
                        }
                        rec.nontrivial = sc.len() >= 2;
                    }
                }
                let mut st = Stats { budget: 400_000, ..Default::default() };
                if let Ok(weak) = allowed(p, Variant::Weak, &mut st) {
                    let extra: BTreeSet<_> = r.outcomes.difference(&weak).cloned().collect();
                    if !extra.is_empty() {
                        rec.v("spin_forbidden_exit", "", format!("the loop exited / continued with values the model forbids: {}", fmt_set(&extra, 6)));
                    }
                }
                if rec.viol.is_empty() {
                    spun_check(p, &with_bits, rec, false);
                }
            }
        }
    }
    if !rec.viol.is_empty() {
        rec.prog_json = serde_json::to_value(p).unwrap();
    }
    if rec.idx % 23 == 0 {
        rec.extra = json!({"family": "spin", "iterations": r.iters, "condition_can_stay_false": stuck, "loom_outcomes": fmt_set(&r.outcomes, 12), "loom_panic": r.panic.as_ref().map(|m| m.lines().next().unwrap_or("").to_string())});
    }
}

/// The number of failed checks is something the program can count (and a loop body can publish it, see `Await::ann`),
/// so "spun at least once" belongs to the combination of values the program continues with. For every set S of awaits,
/// the program in which each await of S is preceded by one load (same ordering) that returns a value failing the check
/// (followed by the loop body's store, if it has one) is the reference for the outcomes in which exactly the awaits of
/// S spun: an execution with more failed checks stays consistent when all but one of them are deleted, so one failed
/// load is both necessary and sufficient.
fn note(op: &Op, rv: Option<u64>, seen: &mut [BTreeSet<u64>]) {
    match *op {
        Op::Store { loc, val, .. } => {
            seen[loc as usize].insert(val);
        }
        Op::Swap { loc, val, .. } => {
            seen[loc as usize].insert(val);
            seen[loc as usize].extend(rv);
        }
        Op::FetchAdd { loc, add, .. } => {
            if let Some(r) = rv {
                seen[loc as usize].insert(r);
                seen[loc as usize].insert(r.wrapping_add(add));
            }
        }
        Op::Cas { loc, new, .. } => {
            seen[loc as usize].insert(new);
            seen[loc as usize].extend(rv);
        }
        Op::Load { loc, .. } | Op::Await { loc, .. } => {
            seen[loc as usize].extend(rv);
        }
        _ => {}
    }
}

pub const KNOWN_SPUN_SIG: &str = "spun_combination_that_needs_another_thread_after_the_yield";

fn spun_check(p: &Prog, with_bits: &BTreeSet<Vec<u64>>, rec: &mut Rec, include_empty: bool) {
    let n_aw = p.threads.iter().flatten().filter(|o| matches!(o, Op::Await { .. })).count();
    if n_aw == 0 || n_aw > 2 {
        return;
    }
    // thread of every position of p's outcome vector (final values: usize::MAX)
    let mut pos_thread: Vec<usize> = p.pre.iter().filter(|o| o.returns()).map(|_| 0).collect();
    for (t, ops) in p.threads.iter().enumerate() {
        pos_thread.extend(ops.iter().filter(|o| o.returns()).map(|_| t));
    }
    for mask in (if include_empty { 0u32 } else { 1 })..(1 << n_aw) {
        // q: the reference program; role of every op of q: 0 ordinary, 1 inserted failed load, 2 await that spun, 3 inserted body store
        let mut q = p.clone();
        let mut roles: Vec<Vec<u8>> = Vec::new();
        let mut k = 0;
        let mut spun_threads: Vec<usize> = Vec::new();
        for (t, ops) in p.threads.iter().enumerate() {
            let (mut nq, mut nr) = (Vec::new(), Vec::new());
            for o in ops {
                if let Op::Await { loc, ord, ann, .. } = *o {
                    if mask & (1 << k) != 0 {
                        nq.push(Op::Load { loc, ord });
                        nr.push(1);
                        if let Some(w) = ann {
                            nq.push(Op::Store { loc: w, val: 1, ord: Ord_::Rlx });
                            nr.push(3);
                        }
                        nq.push(*o);
                        nr.push(2);
                        spun_threads.push(t);
                    } else {
                        nq.push(*o);
                        nr.push(0);
                    }
                    k += 1;
                } else {
                    nq.push(*o);
                    nr.push(0);
                }
            }
            q.threads[t] = nq;
            roles.push(nr);
        }
        // outcome positions of q: pre, thread 0, thread 1, ... (returning ops), then the final values
        let mut kinds: Vec<u8> = q.pre.iter().filter(|o| o.returns()).map(|_| 0).collect();
        let mut mins: Vec<u64> = vec![0; kinds.len()];
        let mut posmap: std::collections::HashMap<(usize, usize), usize> = std::collections::HashMap::new();
        for (t, ops) in q.threads.iter().enumerate() {
            for (i, o) in ops.iter().enumerate() {
                if o.returns() {
                    posmap.insert((t, i), kinds.len());
                    kinds.push(roles[t][i]);
                    mins.push(if roles[t][i] == 1 { ops[i + 1..].iter().find_map(|x| if let Op::Await { min, .. } = x { Some(*min) } else { None }).unwrap_or(1) } else { 0 });
                }
            }
        }
        let map = |set: &BTreeSet<Vec<u64>>| -> BTreeSet<Vec<u64>> {
            let mut out = BTreeSet::new();
            'o: for o in set {
                let mut v = Vec::with_capacity(o.len());
                for (k, x) in o.iter().enumerate() {
                    match kinds.get(k).copied().unwrap_or(0) {
                        1 => {
                            if *x >= mins[k] {
                                continue 'o; // the first check succeeded: not an execution of this reference
                            }
                        }
                        2 => v.push(*x | SPUN_BIT),
                        _ => v.push(*x),
                    }
                }
                out.insert(v);
            }
            out
        };
        // loom's documented yield rule: once a thread has yielded, its loads are not offered a store the thread itself
        // created or read before that yield (when a newer store exists). Combinations that need such a read after the
        // spin are therefore not demanded (they stay allowed): the waiter reads, at or after the await, a value it wrote
        // or read on that location before (main also created the initial values).
        let exempt = |o: &Vec<u64>| -> bool {
            for (t, rs) in roles.iter().enumerate() {
                for (qi, _) in rs.iter().enumerate().filter(|(_, r)| **r == 2) {
                    let mut seen: Vec<BTreeSet<u64>> = vec![BTreeSet::new(); q.nlocs as usize];
                    if t == 0 {
                        for s in seen.iter_mut() {
                            s.insert(0);
                        }
                        let mut k = 0;
                        for op in &q.pre {
                            let rv = if op.returns() {
                                k += 1;
                                Some(o[k - 1])
                            } else {
                                None
                            };
                            note(op, rv, &mut seen);
                        }
                    }
                    for (i, op) in q.threads[t].iter().enumerate().take(qi) {
                        note(op, posmap.get(&(t, i)).map(|k| o[*k]), &mut seen);
                    }
                    for (i, op) in q.threads[t].iter().enumerate().skip(qi) {
                        if let (Some(k), Some(loc)) = (posmap.get(&(t, i)), op.loc()) {
                            if seen[loc as usize].contains(&o[*k]) {
                                return true;
                            }
                        }
                        note(op, posmap.get(&(t, i)).map(|k| o[*k]), &mut seen);
                    }
                }
            }
            false
        };
        let bits_of = |o: &Vec<u64>| -> Vec<bool> { o.iter().map(|x| *x != u64::MAX && x & SPUN_BIT != 0).collect() };
        let mut want: Vec<bool> = kinds.iter().filter(|k| **k != 1).map(|k| *k == 2).collect();
        want.resize(want.len() + p.nlocs as usize, false);
        let same_bits: BTreeSet<Vec<u64>> = with_bits.iter().filter(|o| bits_of(o) == want).cloned().collect();
        // known finding (a backtrack request aimed at a thread that has yielded is dropped): what is lost is the
        // combination of "this waiter spun" with another thread's access that comes after something the waiter did after
        // spinning. History signature: another thread reads a value that a spun waiter wrote in its loop body or after the loop.
        let reads_waiters_later_write = |o: &Vec<u64>| -> bool {
            for (t, rs) in roles.iter().enumerate() {
                let first = match rs.iter().position(|r| *r == 1) {
                    Some(i) => i,
                    None => continue,
                };
                let mut written: Vec<BTreeSet<u64>> = vec![BTreeSet::new(); q.nlocs as usize];
                for (i, op) in q.threads[t].iter().enumerate().skip(first) {
                    let rv = posmap.get(&(t, i)).map(|k| o[*k]);
                    match *op {
                        Op::Store { loc, val, .. } | Op::Swap { loc, val, .. } => {
                            written[loc as usize].insert(val);
                        }
                        Op::Cas { loc, exp, new, .. } => {
                            if rv == Some(exp) {
                                written[loc as usize].insert(new);
                            }
                        }
                        Op::FetchAdd { loc, add, .. } => {
                            if let Some(r) = rv {
                                written[loc as usize].insert(r.wrapping_add(add));
                            }
                        }
                        _ => {}
                    }
                }
                for (u, ops) in q.threads.iter().enumerate() {
                    if u == t {
                        continue;
                    }
                    for (i, op) in ops.iter().enumerate() {
                        if let (Some(k), Some(loc)) = (posmap.get(&(u, i)), op.loc()) {
                            if written[loc as usize].contains(&o[*k]) {
                                return true;
                            }
                        }
                    }
                }
            }
            false
        };
        // ... or, more generally, a third thread would have to run at the decision at which the waiter yielded (with two
        // other threads there is a choice there, and loom explores the default one only)
        let third_thread = (0..q.threads.len()).filter(|t| !spun_threads.contains(t) && !q.threads[*t].is_empty()).count() >= 2;
        let mut st = Stats { budget: 400_000, ..Default::default() };
        let strong_q: BTreeSet<Vec<u64>> = match allowed(&q, Variant::Strong, &mut st) {
            Ok(s) => s.into_iter().filter(|o| !exempt(o)).collect(),
            Err(Budget) => continue,
        };
        let (mut known, mut other) = (BTreeSet::new(), BTreeSet::new());
        let mut other_src: Vec<Vec<u64>> = Vec::new();
        for o in &strong_q {
            let one: BTreeSet<Vec<u64>> = std::iter::once(o.clone()).collect();
            for m in map(&one) {
                if !same_bits.contains(&m) {
                    if mask != 0 && (reads_waiters_later_write(o) || third_thread) {
                        known.insert(m);
                    } else {
                        other.insert(m);
                        other_src.push(o.clone());
                    }
                }
            }
        }
        // a combination reachable through a known-class and through another reference execution counts as the latter
        known.retain(|m| !other.contains(m));
        // the reference program is a plain litmus program: a combination it allows and loom never produces gets the same
        // history signature as in C02 (the features shared by every reference witness of every missing outcome), so that
        // the SeqCst-load finding recorded there is recognised here as well
        let mut feat: Option<Vec<&str>> = None;
        for o in other_src.iter().take(8) {
            let mut st2 = Stats { budget: 2_000_000, ..Default::default() };
            let f = shared_features(&q, o, Variant::Strong, &mut st2).unwrap_or_default();
            feat = Some(match feat {
                None => f,
                Some(prev) => prev.into_iter().filter(|x| f.contains(x)).collect(),
            });
        }
        let other_sig = {
            let mut v: Vec<&str> = feat.unwrap_or_default();
            v.push(if mask == 0 { "without_spinning" } else { "after_spinning" });
            v.join("+")
        };
        for (part, sig) in [(known, KNOWN_SPUN_SIG.to_string()), (other, other_sig)] {
            if !part.is_empty() {
                rec.v("spin_missing_exit", sig, format!("combinations never produced by an execution in which {} (value | 2^40 marks an await that failed its check at least once): {} ; loom produced {}", if mask == 0 { "no loop spun" } else { "the loop spun" }, fmt_set(&part, 6), fmt_set(with_bits, 12)));
            }
        }
        let mut st = Stats { budget: 400_000, ..Default::default() };
        if let Ok(weak) = allowed(&q, Variant::Weak, &mut st) {
            let weak = map(&weak);
            let extra: BTreeSet<_> = same_bits.difference(&weak).cloned().collect();
            if !extra.is_empty() {
                rec.v("spin_forbidden_exit", if mask == 0 { "without_spinning" } else { "after_spinning" }, format!("the loop exited / the program continued with values the model forbids{}: {}", if mask == 0 { "" } else { " after spinning" }, fmt_set(&extra, 6)));
            }
        }
    }
}

pub fn work(tier: u8, seed: u64, idx: usize) -> Rec {
    let mut rec = Rec::new(idx);
    let p = prog_at(tier, seed, idx);
    judge(&p, &mut rec, tier);
    rec
}

// ---------------------------------------------------------------------------------------------
// Await loops whose check is a read-modify-write (test-and-set lock, fetch_add(0) as "load the latest value")
// ---------------------------------------------------------------------------------------------
// The litmus oracle treats an await as one blocking read; a loop whose check also WRITES the location has no such
// reading, so these shapes are judged by what the program itself guarantees: the condition is established by another
// thread in every execution (the loop must end, the model must not hit the branch limit), an Acquire check that read
// the Release store sees the data written before it, both "free at the first attempt" and "had to spin" are explored,
// and a loop nobody ever releases is reported.

#[derive(Clone, Copy, Debug, PartialEq)]
enum RmwCheck {
    Swap,
    FetchAdd0,
    FetchOr1,
    CasLoop,
}
const RMW_CHECKS: [RmwCheck; 4] = [RmwCheck::Swap, RmwCheck::FetchAdd0, RmwCheck::FetchOr1, RmwCheck::CasLoop];

pub fn rmw_total() -> usize {
    // 4 checks x 3 ordering pairs x waiter in {main, child} x {yield_now, spin_loop}, + 4 never-released loops, + 3 lock programs
    RMW_CHECKS.len() * 3 * 2 * 2 + RMW_CHECKS.len() + 3
}

/// `true` = still locked / not yet set: spin again
fn rmw_attempt(x: &loom::sync::atomic::AtomicUsize, check: RmwCheck, acq: std::sync::atomic::Ordering) -> bool {
    use std::sync::atomic::Ordering::Relaxed;
    // the location holds 1 while locked (waiting) and 0 once released
    match check {
        RmwCheck::Swap => x.swap(1, acq) == 1,
        RmwCheck::FetchAdd0 => x.fetch_add(0, acq) == 1,
        RmwCheck::FetchOr1 => x.fetch_or(1, acq) == 1,
        RmwCheck::CasLoop => x.compare_exchange(0, 1, acq, Relaxed).is_err(),
    }
}

pub fn rmw_work(idx: usize) -> Rec {
    use loom::sync::atomic::AtomicUsize;
    use std::sync::atomic::Ordering::{self, *};
    use std::sync::Arc;
    let mut rec = Rec::new(idx);
    rec.extra = json!({"family": "rmwspin"});
    let n_await = RMW_CHECKS.len() * 12;
    let stats = Arc::new([std::sync::atomic::AtomicUsize::new(0), std::sync::atomic::AtomicUsize::new(0), std::sync::atomic::AtomicUsize::new(0), std::sync::atomic::AtomicUsize::new(0)]);
    // [iterations, executions in which the waiter spun, executions without a spin, stale data reads]
    let st = stats.clone();
    let mut expect_complete = true;
    let mut b = loom::model::Builder::new();
    b.max_branches = 300;
    let res: Result<(), Box<dyn std::any::Any + Send>>;
    if idx < n_await {
        let check = RMW_CHECKS[idx % 4];
        let (acq, rel): (Ordering, Ordering) = [(Acquire, Release), (Relaxed, Relaxed), (SeqCst, SeqCst)][(idx / 4) % 3];
        let child_waits = (idx / 12) % 2 == 1;
        let hint = idx / 24 == 1;
        rec.prog = format!("x = 1 ; {} : while {:?}(x, {:?}) says locked {{ {} }} ; r = data.load(rlx)  ||  {} : data.store(7, rlx) ; x.store(0, {:?})", if child_waits { "child" } else { "main" }, check, acq, if hint { "spin_loop()" } else { "yield_now()" }, if child_waits { "main" } else { "child" }, rel);
        res = std::panic::catch_unwind(std::panic::AssertUnwindSafe(|| {
            b.check(move || {
                if st[0].fetch_add(1, SeqCst) >= 100_000 {
                    panic!("{}", ITER_CAP_MSG);
                }
                let x = Arc::new(AtomicUsize::new(1));
                let data = Arc::new(AtomicUsize::new(0));
                let (x2, d2, st2) = (x.clone(), data.clone(), st.clone());
                let waiter = move || {
                    let mut spun = false;
                    while rmw_attempt(&x2, check, acq) {
                        spun = true;
                        if hint {
                            loom::hint::spin_loop();
                        } else {
                            loom::thread::yield_now();
                        }
                    }
                    st2[if spun { 1 } else { 2 }].fetch_add(1, SeqCst);
                    if d2.load(Relaxed) != 7 {
                        st2[3].fetch_add(1, SeqCst);
                    }
                };
                let releaser = move || {
                    data.store(7, Relaxed);
                    x.store(0, rel);
                };
                if child_waits {
                    let h = loom::thread::spawn(waiter);
                    releaser();
                    h.join().unwrap();
                } else {
                    let h = loom::thread::spawn(releaser);
                    waiter();
                    h.join().unwrap();
                }
            })
        }));
    } else if idx < n_await + 4 {
        let check = RMW_CHECKS[idx - n_await];
        expect_complete = false;
        rec.prog = format!("x = 1 ; main : while {:?}(x, Acquire) says locked {{ yield_now() }}  ||  child : y.store(1, rlx)   (nobody releases x)", check);
        res = std::panic::catch_unwind(std::panic::AssertUnwindSafe(|| {
            b.check(move || {
                if st[0].fetch_add(1, SeqCst) >= 100_000 {
                    panic!("{}", ITER_CAP_MSG);
                }
                let x = Arc::new(AtomicUsize::new(1));
                let y = Arc::new(AtomicUsize::new(0));
                let h = loom::thread::spawn(move || y.store(1, Relaxed));
                while rmw_attempt(&x, check, Acquire) {
                    loom::thread::yield_now();
                }
                h.join().unwrap();
            })
        }));
    } else {
        // a test-and-set lock used as a mutex around a cell by 2 threads: at most one thread spins at a time (the other is
        // inside or past its critical section). With 3 threads two could spin at once, which C18 excludes.
        let k = idx - n_await - 4;
        let (check, nthreads) = [(RmwCheck::Swap, 2usize), (RmwCheck::CasLoop, 2), (RmwCheck::FetchOr1, 2)][k];
        rec.prog = format!("x = 0 ; {} threads : while {:?}(x, Acquire) says locked {{ yield_now() }} ; cell += 1 ; x.store(0, Release)", nthreads, check);
        res = std::panic::catch_unwind(std::panic::AssertUnwindSafe(|| {
            b.check(move || {
                if st[0].fetch_add(1, SeqCst) >= 100_000 {
                    panic!("{}", ITER_CAP_MSG);
                }
                struct C(loom::cell::UnsafeCell<usize>);
                unsafe impl Sync for C {}
                unsafe impl Send for C {}
                let x = Arc::new(AtomicUsize::new(0));
                let cell = Arc::new(C(loom::cell::UnsafeCell::new(0)));
                let body = {
                    let (x, cell, st) = (x.clone(), cell.clone(), st.clone());
                    move || {
                        let mut spun = false;
                        while rmw_attempt(&x, check, Acquire) {
                            spun = true;
                            loom::thread::yield_now();
                        }
                        st[if spun { 1 } else { 2 }].fetch_add(1, SeqCst);
                        cell.0.with_mut(|p| unsafe { *p += 1 });
                        x.store(0, Release);
                    }
                };
                let hs: Vec<_> = (1..nthreads).map(|_| loom::thread::spawn(body.clone())).collect();
                body();
                for h in hs {
                    h.join().unwrap();
                }
                if cell.0.with(|p| unsafe { *p }) != nthreads {
                    st[3].fetch_add(1, SeqCst);
                }
            })
        }));
    }
    rec.hash = fnv(&rec.prog);
    rec.runs = 1;
    let g = |i: usize| stats[i].load(SeqCst);
    rec.iters = g(0) as u64;
    rec.events = (g(1) + g(2)) as u64;
    rec.nontrivial = true;
    let panic = res.err().map(panic_msg);
    match panic.as_ref().map(|m| classify(m)) {
        Some(PanicKind::IterCap) => rec.status = "inconclusive:iteration-cap".into(),
        Some(PanicKind::BranchLimit) => {
            if expect_complete {
                rec.v("spin_no_progress", "", format!("the location is released by another thread in every execution, yet the model hit the branch limit after {} iterations", g(0)));
            }
        }
        Some(k) => rec.v("unexpected_panic", format!("{} @ {}", k.short(), last_panic_file()), panic.clone().unwrap_or_default()),
        None => {
            if !expect_complete {
                rec.v("spin_cut_off", "", "nobody ever releases the location, yet loom::model returned normally".to_string());
            } else {
                if g(3) > 0 {
                    let acquires = idx >= n_await || (idx / 4) % 3 != 1;
                    if acquires {
                        rec.v("spin_forbidden_exit", "", format!("{} executions left the loop through an Acquire check that read the Release store and then did not see what was written before it", g(3)));
                    }
                }
                if g(1) == 0 || g(2) == 0 {
                    rec.v("spin_missing_exit", "", format!("executions in which the waiter had to spin: {}, executions in which it did not: {} (both are possible)", g(1), g(2)));
                }
            }
        }
    }
    if rec.extra.get("iterations").is_none() {
        rec.extra = json!({"family": "rmwspin", "iterations": g(0), "executions_with_spin": g(1), "executions_without_spin": g(2)});
    }
    rec
}
