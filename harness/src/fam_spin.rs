//! C18: spin loops that yield. One await loop (`load; yield_now` / `hint::spin_loop`) per waiter,
//! never two threads spinning at once; the reference treats an await as a blocking read that may
//! return any allowed non-zero value.
use crate::common::*;
use crate::lit::*;
use crate::orch::*;
use crate::rc11::*;
use serde_json::json;
use std::collections::BTreeSet;

fn core() -> &'static Vec<Prog> {
    static C: std::sync::OnceLock<Vec<Prog>> = std::sync::OnceLock::new();
    C.get_or_init(|| {
        use Ord_::*;
        let mut v = Vec::new();
        let st = |loc, val, ord| Op::Store { loc, val, ord };
        let ld = |loc, ord| Op::Load { loc, ord };
        for &so in &STORE_ORDS {
            for &lo in &LOAD_ORDS {
                for spin_hint in [false, true] {
                    let aw = |loc, ord| Op::Await { loc, ord, spin_hint, min: 1 };
                    // flag written once; data before it
                    v.push(Prog { nlocs: 2, pre: vec![], threads: vec![vec![aw(0, lo), ld(1, Rlx)], vec![st(1, 5, Rlx), st(0, 1, so)]] });
                    // awaited location written twice: both exit values must be explored
                    v.push(Prog { nlocs: 1, pre: vec![], threads: vec![vec![aw(0, lo)], vec![st(0, 1, so), st(0, 2, so)]] });
                    // two writers
                    v.push(Prog { nlocs: 1, pre: vec![], threads: vec![vec![aw(0, lo), ld(0, lo)], vec![st(0, 1, so)], vec![st(0, 2, so)]] });
                    // two waiters in sequence (a chain)
                    v.push(Prog { nlocs: 2, pre: vec![], threads: vec![vec![st(0, 1, so)], vec![aw(0, lo), st(1, 2, so)], vec![aw(1, lo), ld(0, Rlx)]] });
                    // the waiter is a child, main writes after another access
                    v.push(Prog { nlocs: 2, pre: vec![], threads: vec![vec![ld(1, Rlx), st(0, 1, so)], vec![aw(0, lo), st(1, 7, Rlx)]] });
                }
            }
        }
        // never-true loops: must be reported, not silently cut off
        v.push(Prog { nlocs: 1, pre: vec![], threads: vec![vec![Op::Await { loc: 0, ord: Acq, spin_hint: false, min: 1 }], vec![ld(0, Rlx)]] });
        v.push(Prog { nlocs: 2, pre: vec![], threads: vec![vec![Op::Await { loc: 0, ord: Rlx, spin_hint: true, min: 1 }], vec![st(1, 1, Rel)]] });
        v.push(Prog { nlocs: 1, pre: vec![], threads: vec![vec![], vec![Op::Await { loc: 0, ord: Sc, spin_hint: false, min: 1 }]] });
        v
    })
}

pub fn total(tier: u8) -> usize {
    core().len() + if tier == 0 { 500 } else { 4_000 }
}

pub fn prog_at(_tier: u8, seed: u64, idx: usize) -> Prog {
    let c = core();
    if idx < c.len() {
        return c[idx].clone();
    }
    let mut rng = Rng::new(seed, idx as u64 ^ 0xC18);
    let a = Alpha { nlocs: 2, rmw: true, cas: false, fadd: false, fences: false, sc_only: false };
    loop {
        let nt = 2 + rng.below(2);
        let mut p = random_prog(&mut rng, nt, 2, 2, 4, a);
        let waiter = rng.below(nt);
        let loc = rng.below(2) as u8;
        let pos = rng.below(p.threads[waiter].len() + 1);
        p.threads[waiter].insert(pos, Op::Await { loc, ord: *rng.pick(&LOAD_ORDS), spin_hint: rng.chance(1, 4), min: 1 });
        let writer = (waiter + 1 + rng.below(nt - 1)) % nt;
        if rng.chance(7, 8) {
            let wpos = rng.below(p.threads[writer].len() + 1);
            p.threads[writer].insert(wpos, Op::Store { loc, val: 40 + writer as u64, ord: *rng.pick(&STORE_ORDS) });
        }
        if p.stores_per_loc_ok(5) {
            return p;
        }
    }
}

fn fmt_set(s: &BTreeSet<Vec<u64>>, max: usize) -> String {
    let mut v: Vec<String> = s.iter().take(max).map(|o| format!("{:?}", o)).collect();
    if s.len() > max {
        v.push(format!("…(+{})", s.len() - max));
    }
    v.join(" ")
}

pub fn judge(p: &Prog, rec: &mut Rec, tier: u8) {
    rec.hash = p.hash();
    rec.prog = p.s();
    rec.extra = json!({"family": "spin"});
    let (sc, stuck) = outcomes_sc(p);
    let cfg = Cfg { iter_cap: if tier == 0 { 150_000 } else { 600_000 }, max_branches: Some(300), ..Default::default() };
    let r = run(p, &cfg);
    rec.runs = 1;
    rec.iters = r.iters as u64;
    rec.events = r.events as u64;
    rec.outcomes = r.outcomes.len() as u64;
    let k = r.kind();
    if k == Some(PanicKind::IterCap) {
        rec.status = "inconclusive:iteration-cap".into();
        return;
    }
    if stuck {
        // in some interleaving the awaited condition never becomes true: loom must report it (branch limit or deadlock), not return normally
        match k {
            Some(PanicKind::BranchLimit) | Some(PanicKind::Deadlock) => {}
            None => rec.v("spin_cut_off", "", format!("the loop can spin for ever in some execution, but loom::model returned normally after {} iterations", r.iters)),
            Some(other) => rec.v("unexpected_panic", other.short(), r.panic.clone().unwrap_or_default()),
        }
        rec.nontrivial = true;
    } else {
        match k {
            Some(PanicKind::BranchLimit) => rec.v("spin_no_progress", "", "the awaited condition is established in every execution, yet the model hit the branch limit".to_string()),
            Some(other) => rec.v("unexpected_panic", other.short(), r.panic.clone().unwrap_or_default()),
            None => {
                let mut st = Stats { budget: 400_000, ..Default::default() };
                match allowed(p, Variant::Strong, &mut st) {
                    Ok(strong) => {
                        let miss: BTreeSet<_> = strong.difference(&r.outcomes).cloned().collect();
                        if !miss.is_empty() {
                            // same history signatures as C02 (a known finding there is one here)
                            let mut sig: Option<Vec<&str>> = None;
                            for o in &miss {
                                let mut st2 = Stats { budget: 2_000_000, ..Default::default() };
                                let f = shared_features(p, o, Variant::Strong, &mut st2).unwrap_or_default();
                                sig = Some(match sig {
                                    None => f,
                                    Some(prev) => prev.into_iter().filter(|x| f.contains(x)).collect(),
                                });
                            }
                            rec.v("spin_missing_exit", sig.unwrap_or_default().join("+"), format!("exit/continuation values never produced: {} ; loom produced {} in {} iterations", fmt_set(&miss, 6), fmt_set(&r.outcomes, 10), r.iters));
                        }
                        rec.nontrivial = strong.len() >= 2;
                    }
                    Err(Budget) => {
                        let miss: BTreeSet<_> = sc.difference(&r.outcomes).cloned().collect();
                        if !miss.is_empty() {
                            rec.v("spin_missing_exit", "", format!("interleaving outcomes never produced: {}", fmt_set(&miss, 6)));
                        }
                        rec.nontrivial = sc.len() >= 2;
                    }
                }
                let mut st = Stats { budget: 400_000, ..Default::default() };
                if let Ok(weak) = allowed(p, Variant::Weak, &mut st) {
                    let extra: BTreeSet<_> = r.outcomes.difference(&weak).cloned().collect();
                    if !extra.is_empty() {
                        rec.v("spin_forbidden_exit", "", format!("the loop exited / continued with values the model forbids: {}", fmt_set(&extra, 6)));
                    }
                }
            }
        }
    }
    if !rec.viol.is_empty() {
        rec.prog_json = serde_json::to_value(p).unwrap();
    }
    if rec.idx % 23 == 0 {
        rec.extra = json!({"family": "spin", "iterations": r.iters, "condition_can_stay_false": stuck, "loom_outcomes": fmt_set(&r.outcomes, 12), "loom_panic": r.panic.as_ref().map(|m| m.lines().next().unwrap_or("").to_string())});
    }
}

pub fn work(tier: u8, seed: u64, idx: usize) -> Rec {
    let mut rec = Rec::new(idx);
    let p = prog_at(tier, seed, idx);
    judge(&p, &mut rec, tier);
    rec
}
