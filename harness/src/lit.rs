//! Litmus DSL: straight-line programs over atomics, fences, RMWs, one bounded await loop, and
//! non-atomic cells. Thread 0 is the model closure's main thread: it runs `pre` before spawning the
//! other threads, then its own ops, then joins everything and reads every location (Relaxed).
use crate::common::*;
use serde::{Deserialize, Serialize};

#[derive(Clone, Copy, PartialEq, Eq, Hash, Debug, PartialOrd, Ord, Serialize, Deserialize)]
pub enum Ord_ {
    Rlx,
    Acq,
    Rel,
    AcqRel,
    Sc,
}

#[derive(Clone, Copy, Debug, PartialEq, Eq, Hash, Serialize, Deserialize)]
pub enum Op {
    Load { loc: u8, ord: Ord_ },
    Store { loc: u8, val: u64, ord: Ord_ },
    Swap { loc: u8, val: u64, ord: Ord_ },
    Cas { loc: u8, exp: u64, new: u64, succ: Ord_, fail: Ord_ },
    FetchAdd { loc: u8, add: u64, ord: Ord_ },
    Fence { ord: Ord_ },
    /// `loop { v = load; if v != 0 { break v } yield_now() }` (C18)
    Await {
        loc: u8,
        ord: Ord_,
        spin_hint: bool,
        /// the loop exits when the value read is >= min (1: any non-zero value)
        #[serde(default = "one")]
        min: u64,
        /// loop body: `ann.store(1, Relaxed)` after every failed check (the waiter announces that it is waiting), which
        /// makes "the loop spun" visible to the other threads as a plain value
        #[serde(default)]
        ann: Option<u8>,
    },
    CellRead { c: u8 },
    CellWrite { c: u8 },
    /// `cell.with_mut(|p| { write; x.store(val, ord); write })` (or `with` / read): the access lasts for the whole
    /// closure, also after the store another thread may acquire. For the oracles it is expanded into three operations.
    CellHold { c: u8, write: bool, loc: u8, val: u64, ord: Ord_ },
    /// main only: the threads with index >= t are spawned here and not at the beginning (the spawn edge carries what
    /// main did before this point)
    SpawnFrom { t: u8 },
    /// atomic.with_mut (needs exclusive access: a non-atomic write of the atomic's memory)
    UnsyncLoad { loc: u8 },
}

fn one() -> u64 {
    1
}

#[derive(Clone, Debug, PartialEq, Eq, Hash, Serialize, Deserialize)]
pub struct Prog {
    pub nlocs: usize,
    pub pre: Vec<Op>,
    pub threads: Vec<Vec<Op>>,
}

impl Ord_ {
    pub fn std(self) -> std::sync::atomic::Ordering {
        use std::sync::atomic::Ordering::*;
        match self {
            Ord_::Rlx => Relaxed,
            Ord_::Acq => Acquire,
            Ord_::Rel => Release,
            Ord_::AcqRel => AcqRel,
            Ord_::Sc => SeqCst,
        }
    }
    pub fn s(self) -> &'static str {
        match self {
            Ord_::Rlx => "rlx",
            Ord_::Acq => "acq",
            Ord_::Rel => "rel",
            Ord_::AcqRel => "ar",
            Ord_::Sc => "sc",
        }
    }
}

pub const LOAD_ORDS: [Ord_; 3] = [Ord_::Rlx, Ord_::Acq, Ord_::Sc];
pub const STORE_ORDS: [Ord_; 3] = [Ord_::Rlx, Ord_::Rel, Ord_::Sc];
pub const RMW_ORDS: [Ord_; 5] = [Ord_::Rlx, Ord_::Acq, Ord_::Rel, Ord_::AcqRel, Ord_::Sc];
pub const FENCE_ORDS: [Ord_; 4] = [Ord_::Acq, Ord_::Rel, Ord_::AcqRel, Ord_::Sc];

impl Op {
    pub fn s(&self) -> String {
        let l = |x: &u8| ["x", "y", "z", "w"][*x as usize];
        match self {
            Op::Load { loc, ord } => format!("r={}.ld({})", l(loc), ord.s()),
            Op::Store { loc, val, ord } => format!("{}.st({},{})", l(loc), val, ord.s()),
            Op::Swap { loc, val, ord } => format!("r={}.swap({},{})", l(loc), val, ord.s()),
            Op::Cas { loc, exp, new, succ, fail } => format!("r={}.cas({}->{},{},{})", l(loc), exp, new, succ.s(), fail.s()),
            Op::FetchAdd { loc, add, ord } => format!("r={}.fadd({},{})", l(loc), add, ord.s()),
            Op::Fence { ord } => format!("fence({})", ord.s()),
            Op::Await { loc, ord, spin_hint, min, ann } => format!("r=await{}({}{},{}{})", if *spin_hint { "_spin" } else { "" }, l(loc), if *min <= 1 { "!=0".to_string() } else { format!(">={}", min) }, ord.s(), match ann { Some(w) => format!(";else {}.st(1,rlx)", l(w)), None => String::new() }),
            Op::CellRead { c } => format!("c{}.read", c),
            Op::SpawnFrom { t } => format!("spawn(t{}..)", t),
            Op::CellHold { c, write, loc, val, ord } => format!("c{}.{}{{..; {}.st({},{}); ..}}", c, if *write { "with_mut" } else { "with" }, l(loc), val, ord.s()),
            Op::CellWrite { c } => format!("c{}.write", c),
            Op::UnsyncLoad { loc } => format!("r={}.unsync_load", l(loc)),
        }
    }
    pub fn loc(&self) -> Option<u8> {
        match self {
            Op::Load { loc, .. } | Op::Store { loc, .. } | Op::Swap { loc, .. } | Op::Cas { loc, .. } | Op::FetchAdd { loc, .. } | Op::Await { loc, .. } | Op::UnsyncLoad { loc } | Op::CellHold { loc, .. } => Some(*loc),
            _ => None,
        }
    }
    pub fn is_write(&self) -> bool {
        matches!(self, Op::Store { .. } | Op::Swap { .. } | Op::Cas { .. } | Op::FetchAdd { .. } | Op::CellHold { .. })
    }
    pub fn returns(&self) -> bool {
        matches!(self, Op::Load { .. } | Op::Swap { .. } | Op::Cas { .. } | Op::FetchAdd { .. } | Op::Await { .. })
    }
    pub fn is_mem(&self) -> bool {
        !matches!(self, Op::Fence { .. } | Op::CellRead { .. } | Op::CellWrite { .. } | Op::SpawnFrom { .. })
    }
}

impl Prog {
    /// Index in main's operation list of the `SpawnFrom` that spawns thread u (None: spawned at the beginning)
    pub fn spawn_pos(&self, u: usize) -> Option<usize> {
        self.threads.first()?.iter().position(|o| matches!(o, Op::SpawnFrom { t } if (*t as usize) <= u && u >= 1))
    }
    pub fn staged(&self) -> bool {
        self.threads.first().map_or(false, |m| m.iter().any(|o| matches!(o, Op::SpawnFrom { .. })))
    }
    /// The program the oracles see: an access that lasts for a whole closure is an access before and one after what the
    /// closure does in between.
    pub fn expanded(&self) -> Prog {
        let ex = |ops: &Vec<Op>| -> Vec<Op> {
            let mut v = Vec::new();
            for o in ops {
                if let Op::CellHold { c, write, loc, val, ord } = *o {
                    let acc = if write { Op::CellWrite { c } } else { Op::CellRead { c } };
                    v.extend([acc, Op::Store { loc, val, ord }, acc]);
                } else {
                    v.push(*o);
                }
            }
            v
        };
        Prog { nlocs: self.nlocs, pre: ex(&self.pre), threads: self.threads.iter().map(ex).collect() }
    }

    pub fn s(&self) -> String {
        let th = |t: &Vec<Op>| t.iter().map(|o| o.s()).collect::<Vec<_>>().join("; ");
        let body = self.threads.iter().map(th).collect::<Vec<_>>().join("  ||  ");
        if self.pre.is_empty() {
            body
        } else {
            format!("pre[{}]  {}", th(&self.pre), body)
        }
    }
    pub fn hash(&self) -> u64 {
        fnv(&self.s())
    }
    pub fn all_ops(&self) -> impl Iterator<Item = &Op> {
        self.pre.iter().chain(self.threads.iter().flatten())
    }
    pub fn mem_events(&self) -> usize {
        self.all_ops().filter(|o| o.is_mem()).count()
    }
    /// at least two threads access one location and one of these accesses writes it
    pub fn shares(&self) -> bool {
        for l in 0..self.nlocs as u8 {
            let mut writers = 0;
            let mut touchers = 0;
            for t in &self.threads {
                let w = t.iter().any(|o| o.loc() == Some(l) && o.is_write());
                let r = t.iter().any(|o| o.loc() == Some(l));
                writers += w as usize;
                touchers += r as usize;
            }
            if writers >= 1 && touchers >= 2 {
                return true;
            }
        }
        false
    }
    pub fn stores_per_loc_ok(&self, max: usize) -> bool {
        (0..self.nlocs as u8).all(|l| self.all_ops().filter(|o| o.loc() == Some(l) && o.is_write()).count() <= max)
    }
    pub fn has_cells(&self) -> bool {
        self.all_ops().any(|o| matches!(o, Op::CellRead { .. } | Op::CellWrite { .. } | Op::UnsyncLoad { .. }))
    }
    pub fn has_await(&self) -> bool {
        self.all_ops().any(|o| matches!(o, Op::Await { .. }))
    }
}

/// Unique value for the store at (thread, pc): never 0, never collides with fetch_add bits (>= 64).
pub fn uval(th: usize, pc: usize) -> u64 {
    (th * 6 + pc + 1) as u64
}
pub fn add_bit(th: usize, pc: usize) -> u64 {
    64u64 << ((th * 3 + pc) % 16)
}

#[derive(Clone, Copy)]
pub struct Alpha {
    pub nlocs: usize,
    pub rmw: bool,
    pub cas: bool,
    pub fadd: bool,
    pub fences: bool,
    pub sc_only: bool,
}

pub fn alphabet(a: Alpha, th: usize, pc: usize) -> Vec<Op> {
    let mut v = Vec::new();
    let val = uval(th, pc);
    let lo: &[Ord_] = if a.sc_only { &[Ord_::Sc] } else { &LOAD_ORDS };
    let so: &[Ord_] = if a.sc_only { &[Ord_::Sc] } else { &STORE_ORDS };
    let ro: &[Ord_] = if a.sc_only { &[Ord_::Sc] } else { &RMW_ORDS };
    for loc in 0..a.nlocs as u8 {
        for &ord in lo {
            v.push(Op::Load { loc, ord });
        }
        for &ord in so {
            v.push(Op::Store { loc, val, ord });
        }
        if a.rmw {
            for &ord in ro {
                v.push(Op::Swap { loc, val, ord });
            }
        }
        if a.fadd {
            for &ord in ro {
                v.push(Op::FetchAdd { loc, add: add_bit(th, pc), ord });
            }
        }
        if a.cas {
            // expected value 0 (initial) — succeeds iff it reads the initial store
            for &ord in ro {
                let fail = match ord {
                    Ord_::Sc => Ord_::Sc,
                    Ord_::Acq | Ord_::AcqRel => Ord_::Acq,
                    _ => Ord_::Rlx,
                };
                v.push(Op::Cas { loc, exp: 0, new: val, succ: ord, fail });
                if fail != Ord_::Rlx {
                    // a failure ordering weaker than what the success ordering implies: a failing attempt is a relaxed load
                    v.push(Op::Cas { loc, exp: 0, new: val, succ: ord, fail: Ord_::Rlx });
                }
            }
        }
    }
    if a.fences {
        let fo: &[Ord_] = if a.sc_only { &[Ord_::Sc] } else { &FENCE_ORDS };
        for &ord in fo {
            v.push(Op::Fence { ord });
        }
    }
    v
}

/// Random litmus program. `t` threads (incl. main), up to `k` ops per thread, `l` locations, at most
/// `max_mem` memory events in total.
pub fn random_prog(rng: &mut Rng, t: usize, k: usize, l: usize, max_mem: usize, a: Alpha) -> Prog {
    loop {
        let mut threads = vec![Vec::new(); t];
        let mut a = a;
        a.nlocs = l;
        for th in 0..t {
            let len = if th == 0 { rng.below(k + 1) } else { 1 + rng.below(k) };
            for pc in 0..len {
                let al = alphabet(a, th, pc);
                let mut op = *rng.pick(&al);
                // CAS: expected value sometimes one of another thread's store values
                if let Op::Cas { ref mut exp, .. } = op {
                    if rng.chance(1, 2) {
                        let ot = rng.below(t);
                        *exp = uval(ot, rng.below(k));
                    }
                }
                threads[th].push(op);
            }
        }
        let mut pre = Vec::new();
        if rng.chance(1, 6) {
            let al = alphabet(Alpha { rmw: false, cas: false, fadd: false, fences: false, ..a }, 5, 0);
            let stores: Vec<Op> = al.into_iter().filter(|o| matches!(o, Op::Store { .. })).collect();
            pre.push(*rng.pick(&stores));
        }
        let p = Prog { nlocs: l, pre, threads };
        if p.mem_events() <= max_mem && p.stores_per_loc_ok(6) {
            return p;
        }
    }
}

/// Exhaustive family: `t` threads x exactly `k` ops each (main included iff `main_ops`) over `l` locations.
pub fn family(t: usize, k: usize, a: Alpha, main_ops: bool) -> Vec<Prog> {
    let mut slots: Vec<(usize, Vec<Op>)> = Vec::new();
    for th in 0..t {
        if th == 0 && !main_ops {
            continue;
        }
        for pc in 0..k {
            slots.push((th, alphabet(a, th, pc)));
        }
    }
    let mut progs = Vec::new();
    let mut idx = vec![0usize; slots.len()];
    'o: loop {
        let mut threads = vec![Vec::new(); t];
        for (i, (th, al)) in slots.iter().enumerate() {
            threads[*th].push(al[idx[i]]);
        }
        progs.push(Prog { nlocs: a.nlocs, pre: vec![], threads });
        let mut j = 0;
        loop {
            if j == slots.len() {
                break 'o;
            }
            idx[j] += 1;
            if idx[j] < slots[j].1.len() {
                break;
            }
            idx[j] = 0;
            j += 1;
        }
    }
    progs
}

/// Classic litmus shapes, each instantiated with every ordering assignment from the given pools.
pub fn classics() -> Vec<(String, Prog)> {
    use Ord_::*;
    let mut out = Vec::new();
    let ld = |loc, ord| Op::Load { loc, ord };
    let st = |loc, val, ord| Op::Store { loc, val, ord };
    let f = |ord| Op::Fence { ord };
    // MP
    for &so in &STORE_ORDS {
        for &lo in &LOAD_ORDS {
            out.push((format!("MP[{},{}]", so.s(), lo.s()), Prog { nlocs: 2, pre: vec![], threads: vec![vec![], vec![st(0, 1, Rlx), st(1, 2, so)], vec![ld(1, lo), ld(0, Rlx)]] }));
            out.push((format!("SB[{},{}]", so.s(), lo.s()), Prog { nlocs: 2, pre: vec![], threads: vec![vec![], vec![st(0, 1, so), ld(1, lo)], vec![st(1, 2, so), ld(0, lo)]] }));
            out.push((format!("IRIW[{},{}]", so.s(), lo.s()), Prog { nlocs: 2, pre: vec![], threads: vec![vec![st(0, 1, so)], vec![st(1, 2, so)], vec![ld(0, lo), ld(1, lo)], vec![ld(1, lo), ld(0, lo)]] }));
            out.push((format!("WRC[{},{}]", so.s(), lo.s()), Prog { nlocs: 2, pre: vec![], threads: vec![vec![], vec![st(0, 1, so)], vec![ld(0, lo), st(1, 2, so)], vec![ld(1, lo), ld(0, Rlx)]] }));
            out.push((format!("ISA2[{},{}]", so.s(), lo.s()), Prog { nlocs: 3, pre: vec![], threads: vec![vec![], vec![st(0, 1, Rlx), st(1, 2, so)], vec![ld(1, lo), st(2, 3, so)], vec![ld(2, lo), ld(0, Rlx)]] }));
            out.push((format!("CoRR[{},{}]", so.s(), lo.s()), Prog { nlocs: 1, pre: vec![], threads: vec![vec![], vec![st(0, 1, so)], vec![st(0, 2, so)], vec![ld(0, lo), ld(0, lo)]] }));
            out.push((format!("CoWR[{},{}]", so.s(), lo.s()), Prog { nlocs: 1, pre: vec![], threads: vec![vec![], vec![st(0, 1, so), ld(0, lo)], vec![st(0, 2, so), ld(0, lo)]] }));
            out.push((format!("CoRW[{},{}]", so.s(), lo.s()), Prog { nlocs: 1, pre: vec![], threads: vec![vec![], vec![ld(0, lo), st(0, 1, so)], vec![st(0, 2, so)]] }));
            out.push((format!("relseq-rmw[{},{}]", so.s(), lo.s()), Prog { nlocs: 2, pre: vec![], threads: vec![vec![], vec![st(1, 1, Rlx), st(0, 2, so)], vec![Op::Swap { loc: 0, val: 3, ord: Rlx }], vec![ld(0, lo), ld(1, Rlx)]] }));
            out.push((format!("relseq-same[{},{}]", so.s(), lo.s()), Prog { nlocs: 2, pre: vec![], threads: vec![vec![], vec![st(1, 1, Rlx), st(0, 2, so), st(0, 3, Rlx)], vec![ld(0, lo), ld(1, Rlx)]] }));
        }
        out.push((format!("2+2W[{}]", so.s()), Prog { nlocs: 2, pre: vec![], threads: vec![vec![], vec![st(0, 1, so), st(1, 2, so)], vec![st(1, 3, so), st(0, 4, so)]] }));
        out.push((format!("CoWW[{}]", so.s()), Prog { nlocs: 1, pre: vec![], threads: vec![vec![], vec![st(0, 1, so), st(0, 2, so)], vec![st(0, 3, so), ld(0, Rlx)]] }));
    }
    for &f1 in &FENCE_ORDS {
        for &f2 in &FENCE_ORDS {
            out.push((format!("MP+f[{},{}]", f1.s(), f2.s()), Prog { nlocs: 2, pre: vec![], threads: vec![vec![], vec![st(0, 1, Rlx), f(f1), st(1, 2, Rlx)], vec![ld(1, Rlx), f(f2), ld(0, Rlx)]] }));
            out.push((format!("SB+f[{},{}]", f1.s(), f2.s()), Prog { nlocs: 2, pre: vec![], threads: vec![vec![], vec![st(0, 1, Rlx), f(f1), ld(1, Rlx)], vec![st(1, 2, Rlx), f(f2), ld(0, Rlx)]] }));
            out.push((format!("IRIW+f[{},{}]", f1.s(), f2.s()), Prog { nlocs: 2, pre: vec![], threads: vec![vec![st(0, 1, Rlx)], vec![st(1, 2, Rlx)], vec![ld(0, Rlx), f(f1), ld(1, Rlx)], vec![ld(1, Rlx), f(f2), ld(0, Rlx)]] }));
        }
    }
    // a fence before the reads / after the writes: it orders nothing by itself, stale reads stay allowed
    // (also the shape that shows state leaking from one iteration into the next through the global SeqCst view)
    for &f1 in &FENCE_ORDS {
        for &f2 in &FENCE_ORDS {
            out.push((format!("f;RR|WW;f[{},{}]", f1.s(), f2.s()), Prog { nlocs: 2, pre: vec![], threads: vec![vec![], vec![f(f1), ld(1, Rlx), ld(0, Rlx)], vec![st(0, 1, Rlx), st(1, 2, Rlx), f(f2)]] }));
            out.push((format!("W;f;RR|WW;f[{},{}]", f1.s(), f2.s()), Prog { nlocs: 3, pre: vec![], threads: vec![vec![], vec![st(2, 5, Rlx), f(f1), ld(1, Rlx), ld(0, Rlx)], vec![st(0, 1, Rlx), st(1, 2, Rlx), f(f2), ld(2, Rlx)]] }));
        }
    }
    // relay thread with a two-sided fence (reads relaxed before it, stores relaxed after it): the fence
    // must forward what it acquired; consumer acquires by load or by fence
    for &f1 in &FENCE_ORDS {
        for &lo in &LOAD_ORDS {
            out.push((format!("relay+f[{},{}]", f1.s(), lo.s()), Prog { nlocs: 3, pre: vec![], threads: vec![vec![], vec![st(0, 1, Rlx), st(1, 2, Rel)], vec![ld(1, Rlx), f(f1), st(2, 3, Rlx)], vec![ld(2, lo), ld(0, Rlx)]] }));
        }
        for &f2 in &FENCE_ORDS {
            out.push((format!("relay+f+f[{},{}]", f1.s(), f2.s()), Prog { nlocs: 3, pre: vec![], threads: vec![vec![], vec![st(0, 1, Rlx), st(1, 2, Rel)], vec![ld(1, Rlx), f(f1), st(2, 3, Rlx)], vec![ld(2, Rlx), f(f2), ld(0, Rlx)]] }));
        }
    }
    // what a SeqCst fence learns from an earlier SeqCst fence is part of what it releases: W;Fsc;R ‖ W;F;W ‖ R;R with the
    // third thread acquiring from the store after the second fence (by load, by fence, or through a join of main)
    for &f1 in &FENCE_ORDS {
        for &f2 in &FENCE_ORDS {
            for &lo in &LOAD_ORDS {
                out.push((format!("W;f;R|W;f;W|RR[{},{},{}]", f1.s(), f2.s(), lo.s()), Prog { nlocs: 3, pre: vec![], threads: vec![vec![], vec![st(0, 1, Rlx), f(f1), ld(1, Rlx)], vec![st(1, 1, Rlx), f(f2), st(2, 1, Rlx)], vec![ld(2, lo), ld(0, Rlx)]] }));
            }
            out.push((format!("W;f;R|W;f;W|R;f;R[{},{}]", f1.s(), f2.s()), Prog { nlocs: 3, pre: vec![], threads: vec![vec![], vec![st(0, 1, Rlx), f(f1), ld(1, Rlx)], vec![st(1, 1, Rlx), f(f2), st(2, 1, Rlx)], vec![ld(2, Rlx), f(Acq), ld(0, Rlx)]] }));
        }
    }
    // the store half of an RMW carries the release of the store it read even when the RMW itself already happens-before
    // the reader by another route (z): W;W_rel ‖ RMW;W_rel(z) ‖ R_acq(z);R(x);[F_acq];R
    for &ro in &RMW_ORDS {
        for &f2 in &[Acq, AcqRel, Sc] {
            out.push((format!("relseq-rmw-known+f[{},{}]", ro.s(), f2.s()), Prog { nlocs: 3, pre: vec![], threads: vec![vec![ld(2, Acq), ld(1, Rlx), f(f2), ld(0, Rlx)], vec![st(0, 1, Rlx), st(1, 1, Rel)], vec![Op::FetchAdd { loc: 1, add: 1, ord: ro }, st(2, 1, Rel)]] }));
        }
        for &lo in &[Acq, Sc] {
            out.push((format!("relseq-rmw-known[{},{}]", ro.s(), lo.s()), Prog { nlocs: 3, pre: vec![], threads: vec![vec![ld(2, Acq), ld(1, lo), ld(0, Rlx)], vec![st(0, 1, Rlx), st(1, 1, Rel)], vec![Op::FetchAdd { loc: 1, add: 1, ord: ro }, st(2, 1, Rel)]] }));
        }
    }
    // a thread spawned AFTER its parent's release-class fence does not inherit that fence: its relaxed store publishes
    // nothing (the reader was spawned before the parent wrote anything)
    for &f1 in &[Rel, AcqRel, Sc] {
        for &lo in &[Acq, Sc] {
            out.push((format!("spawn-after-fence[{},{}]", f1.s(), lo.s()), Prog { nlocs: 2, pre: vec![], threads: vec![vec![st(1, 1, Rlx), f(f1), Op::SpawnFrom { t: 2 }], vec![ld(0, lo), ld(1, Rlx)], vec![st(0, 1, Rlx)]] }));
            out.push((format!("spawn-after-fence-rmw[{},{}]", f1.s(), lo.s()), Prog { nlocs: 2, pre: vec![], threads: vec![vec![st(1, 1, Rlx), f(f1), Op::SpawnFrom { t: 2 }], vec![ld(0, lo), ld(1, Rlx)], vec![Op::FetchAdd { loc: 0, add: 1, ord: Rlx }]] }));
        }
    }
    // an acquire fence synchronizes through the stores the fencing thread loaded ITSELF, not through what its parent had
    // loaded before the spawn: main reads A's release store and spawns T; T reads another, later store of the location,
    // fences, and may still miss A's data
    for &fo in &[Acq, AcqRel, Sc] {
        for &so in &[Rel, Sc] {
            out.push((format!("acq-fence-after-parent-read[{},{}]", fo.s(), so.s()), Prog { nlocs: 2, pre: vec![], threads: vec![vec![ld(0, Rlx), st(0, 2, Rlx), Op::SpawnFrom { t: 2 }], vec![st(1, 1, Rlx), st(0, 1, so)], vec![ld(0, Rlx), f(fo), ld(1, Rlx)]] }));
            out.push((format!("acq-fence-after-parent-read-2[{},{}]", fo.s(), so.s()), Prog { nlocs: 2, pre: vec![], threads: vec![vec![ld(0, Rlx), Op::Swap { loc: 0, val: 2, ord: Rlx }, Op::SpawnFrom { t: 2 }], vec![st(1, 1, Rlx), st(0, 1, so)], vec![ld(0, Rlx), f(fo), ld(1, Rlx)]] }));
        }
    }
    // the spawn edge itself: what the parent did before the spawn is visible to the child, later writes need not be
    out.push(("spawn-edge".into(), Prog { nlocs: 2, pre: vec![], threads: vec![vec![st(0, 1, Rlx), Op::SpawnFrom { t: 1 }, st(1, 1, Rlx)], vec![ld(1, Rlx), ld(0, Rlx)]] }));
    // a store X becomes happens-before the reader between two reads of the same other store S: the next load must not go
    // back to X (the re-read of S orders X before S like the first read would have)
    for &so in &[Rel, Sc] {
        for &lo in &[Acq, Sc] {
            out.push((format!("reread-after-acquire[{},{}]", so.s(), lo.s()), Prog { nlocs: 2, pre: vec![], threads: vec![vec![ld(0, Rlx), ld(1, lo), ld(0, Rlx), ld(0, Rlx)], vec![st(0, 1, Rlx), st(1, 1, so)], vec![st(0, 2, Rlx)]] }));
            out.push((format!("own-store-reread-after-acquire[{},{}]", so.s(), lo.s()), Prog { nlocs: 2, pre: vec![], threads: vec![vec![st(0, 2, Rlx), ld(1, lo), ld(0, Rlx), ld(0, Rlx)], vec![st(0, 1, Rlx), st(1, 1, so)]] }));
        }
    }
    // a second RMW that reads an OLDER store than the one another RMW has read already (a side channel shows that it ran later)
    for &r1 in &RMW_ORDS {
        for &r2 in &[Rlx, AcqRel, Sc] {
            out.push((format!("rmw-older-after-rmw[{},{}]", r1.s(), r2.s()), Prog { nlocs: 2, pre: vec![], threads: vec![vec![ld(1, Rlx), Op::FetchAdd { loc: 0, add: 16, ord: r2 }], vec![st(0, 1, Rlx), Op::FetchAdd { loc: 0, add: 256, ord: r1 }, st(1, 1, Rlx)]] }));
            out.push((format!("rmw-older-after-swap[{},{}]", r1.s(), r2.s()), Prog { nlocs: 2, pre: vec![], threads: vec![vec![], vec![st(0, 1, Rlx), Op::Swap { loc: 0, val: 7, ord: r1 }, st(1, 1, Rlx)], vec![ld(1, Rlx), Op::Swap { loc: 0, val: 9, ord: r2 }]] }));
        }
    }
    // store buffering around a ring of three threads: three SeqCst fences are totally ordered
    for &f1 in &FENCE_ORDS {
        out.push((format!("SB3+f[{},sc,sc]", f1.s()), Prog { nlocs: 3, pre: vec![], threads: vec![vec![st(0, 1, Rlx), f(f1), ld(1, Rlx)], vec![st(1, 1, Rlx), f(Sc), ld(2, Rlx)], vec![st(2, 1, Rlx), f(Sc), ld(0, Rlx)]] }));
    }
    out.push(("SB3+f[sc,sc,sc]+main-idle".into(), Prog { nlocs: 3, pre: vec![], threads: vec![vec![], vec![st(0, 1, Rlx), f(Sc), ld(1, Rlx)], vec![st(1, 1, Rlx), f(Sc), ld(2, Rlx)], vec![st(2, 1, Rlx), f(Sc), ld(0, Rlx)]] }));
    // release sequence continued by an RMW of another thread, in every RMW ordering, swap and fetch_add
    for &ro in &RMW_ORDS {
        for &lo in &LOAD_ORDS {
            for &so in &STORE_ORDS {
                out.push((format!("relseq-swap[{},{},{}]", so.s(), ro.s(), lo.s()), Prog { nlocs: 2, pre: vec![], threads: vec![vec![], vec![st(1, 1, Rlx), st(0, 2, so)], vec![Op::Swap { loc: 0, val: 3, ord: ro }], vec![ld(0, lo), ld(1, Rlx)]] }));
                out.push((format!("relseq-fadd[{},{},{}]", so.s(), ro.s(), lo.s()), Prog { nlocs: 2, pre: vec![], threads: vec![vec![], vec![st(1, 1, Rlx), st(0, 2, so)], vec![Op::FetchAdd { loc: 0, add: 64, ord: ro }], vec![ld(0, lo), ld(1, Rlx)]] }));
            }
        }
        // two RMWs in the sequence
        out.push((format!("relseq-2rmw[{}]", ro.s()), Prog { nlocs: 2, pre: vec![], threads: vec![vec![ld(0, Acq), ld(1, Rlx)], vec![st(1, 1, Rlx), st(0, 2, Rel)], vec![Op::FetchAdd { loc: 0, add: 64, ord: ro }], vec![Op::FetchAdd { loc: 0, add: 128, ord: Rlx }]] }));
    }
    for &ro in &RMW_ORDS {
        out.push((format!("rmw-atomicity[{}]", ro.s()), Prog { nlocs: 1, pre: vec![], threads: vec![vec![Op::Swap { loc: 0, val: 2, ord: ro }], vec![st(0, 1, Rlx)]] }));
        out.push((format!("2fadd[{}]", ro.s()), Prog { nlocs: 1, pre: vec![], threads: vec![vec![Op::FetchAdd { loc: 0, add: 64, ord: ro }], vec![Op::FetchAdd { loc: 0, add: 128, ord: ro }], vec![Op::FetchAdd { loc: 0, add: 256, ord: ro }]] }));
        out.push((format!("cas-race[{}]", ro.s()), Prog { nlocs: 1, pre: vec![], threads: vec![vec![Op::Cas { loc: 0, exp: 0, new: 1, succ: ro, fail: Rlx }], vec![Op::Cas { loc: 0, exp: 0, new: 2, succ: ro, fail: Rlx }], vec![Op::Cas { loc: 0, exp: 1, new: 3, succ: ro, fail: Rlx }]] }));
    }
    // message passing through a compare_exchange that FAILS: it synchronizes with its failure ordering, whatever the
    // success ordering is
    for &so in &STORE_ORDS {
        for &(succ, fail) in &[(Acq, Rlx), (AcqRel, Rlx), (Sc, Rlx), (Sc, Acq), (Acq, Acq), (Rlx, Rlx), (Rel, Rlx)] {
            out.push((format!("MP+failed-cas[{},{},{}]", so.s(), succ.s(), fail.s()), Prog { nlocs: 2, pre: vec![], threads: vec![vec![], vec![st(0, 1, Rlx), st(1, 2, so)], vec![Op::Cas { loc: 1, exp: 7, new: 8, succ, fail }, ld(0, Rlx)]] }));
            out.push((format!("MP+failed-cas+f[{},{},{}]", so.s(), succ.s(), fail.s()), Prog { nlocs: 2, pre: vec![], threads: vec![vec![], vec![st(0, 1, Rlx), st(1, 2, so)], vec![Op::Cas { loc: 1, exp: 7, new: 8, succ, fail }, Op::Cas { loc: 1, exp: 2, new: 9, succ, fail }, ld(0, Rlx)]] }));
        }
    }
    // the programs quoted in the property texts
    out.push(("C01-text".into(), Prog { nlocs: 1, pre: vec![], threads: vec![vec![st(0, 1, Sc), ld(0, Sc)], vec![ld(0, Sc), st(0, 2, Sc)]] }));
    out.push(("C02-text".into(), Prog { nlocs: 3, pre: vec![], threads: vec![vec![ld(2, Acq), f(Acq), ld(1, Rlx)], vec![st(1, 1, Rlx), st(0, 2, Rel)], vec![ld(0, Rlx), st(2, 3, Rel)]] }));
    out.push(("C03-text-a".into(), Prog { nlocs: 1, pre: vec![], threads: vec![vec![], vec![st(0, 1, Rlx), st(0, 2, Rlx)], vec![st(0, 3, Rlx), ld(0, Rlx)]] }));
    // pinned witness of the known finding "SeqCst load ordered against SeqCst stores by execution order"
    out.push(("C02-known-sc-load".into(), Prog { nlocs: 2, pre: vec![], threads: vec![vec![], vec![Op::Swap { loc: 1, val: 7, ord: Rel }, ld(0, Sc)], vec![st(0, 13, Sc), st(1, 14, Rlx)], vec![Op::FetchAdd { loc: 0, add: 32768, ord: Sc }]] }));
    out.push(("C03-text-b".into(), Prog { nlocs: 1, pre: vec![], threads: vec![vec![Op::Swap { loc: 0, val: 2, ord: Rlx }], vec![st(0, 1, Rlx)]] }));
    out
}

// ---------------------------------------------------------------------------------------------
// Interpreter on the real loom
// ---------------------------------------------------------------------------------------------

use loom::sync::atomic::{fence, AtomicU64};
use std::collections::BTreeSet;
use std::sync::{Arc, Mutex};

pub struct Cells(pub Vec<loom::cell::UnsafeCell<u64>>);
unsafe impl Sync for Cells {}
unsafe impl Send for Cells {}

pub struct Shared {
    pub locs: Vec<AtomicU64>,
    pub cells: Cells,
    /// C18: an await that failed its check at least once returns `value | SPUN_BIT`
    pub record_spun: bool,
}

pub const SPUN_BIT: u64 = 1 << 40;
/// final value of a location whose two final loads / final unsync_load disagree
pub const INCOHERENT_FINAL: u64 = 0xBAD_C0DE;

/// Per-iteration client-boundary log: (thread, pc, result) in the order the operations returned.
pub type IterLog = Vec<(u8, u8, u64)>;

fn exec(ops: &[Op], tid: u8, base_pc: u8, sh: &Shared, log: &Mutex<IterLog>) -> Vec<u64> {
    let mut r = Vec::new();
    for (i, op) in ops.iter().enumerate() {
        let pc = base_pc + i as u8;
        let ret = |v: u64, r: &mut Vec<u64>| {
            r.push(v);
            v
        };
        let v = match *op {
            Op::Load { loc, ord } => ret(sh.locs[loc as usize].load(ord.std()), &mut r),
            Op::Store { loc, val, ord } => {
                sh.locs[loc as usize].store(val, ord.std());
                u64::MAX
            }
            Op::Swap { loc, val, ord } => ret(sh.locs[loc as usize].swap(val, ord.std()), &mut r),
            Op::Cas { loc, exp, new, succ, fail } => ret(
                match sh.locs[loc as usize].compare_exchange(exp, new, succ.std(), fail.std()) {
                    Ok(v) => v,
                    Err(v) => v,
                },
                &mut r,
            ),
            Op::FetchAdd { loc, add, ord } => ret(sh.locs[loc as usize].fetch_add(add, ord.std()), &mut r),
            Op::Fence { ord } => {
                fence(ord.std());
                u64::MAX
            }
            Op::Await { loc, ord, spin_hint, min, ann } => {
                let mut spun = 0;
                loop {
                let v = sh.locs[loc as usize].load(ord.std());
                if v >= min {
                    break ret(v | spun, &mut r);
                }
                if sh.record_spun {
                    spun = SPUN_BIT;
                }
                if let Some(w) = ann {
                    sh.locs[w as usize].store(1, std::sync::atomic::Ordering::Relaxed);
                }
                if spin_hint {
                    loom::hint::spin_loop();
                } else {
                    loom::thread::yield_now();
                }
                }
            }
            Op::CellRead { c } => {
                sh.cells.0[c as usize].with(|p| unsafe { std::ptr::read_volatile(p) });
                u64::MAX
            }
            Op::SpawnFrom { .. } => u64::MAX, // handled by `run` (main only)
            Op::CellWrite { c } => {
                sh.cells.0[c as usize].with_mut(|p| unsafe { std::ptr::write_volatile(p, 1) });
                u64::MAX
            }
            Op::CellHold { c, write, loc, val, ord } => {
                if write {
                    sh.cells.0[c as usize].with_mut(|p| unsafe {
                        std::ptr::write_volatile(p, 1);
                        sh.locs[loc as usize].store(val, ord.std());
                        std::ptr::write_volatile(p, 2);
                    });
                } else {
                    sh.cells.0[c as usize].with(|p| unsafe {
                        std::ptr::read_volatile(p);
                        sh.locs[loc as usize].store(val, ord.std());
                        std::ptr::read_volatile(p);
                    });
                }
                u64::MAX
            }
            Op::UnsyncLoad { loc } => {
                let _ = unsafe { sh.locs[loc as usize].unsync_load() };
                u64::MAX
            }
        };
        log.lock().unwrap().push((tid, pc, v));
    }
    r
}

#[derive(Clone, Debug, Default)]
pub struct Cfg {
    pub preemption_bound: Option<usize>,
    pub max_branches: Option<usize>,
    pub max_permutations: Option<usize>,
    pub max_duration_ms: Option<u64>,
    pub checkpoint_file: Option<String>,
    pub checkpoint_interval: Option<usize>,
    /// 0 none; see `run` for placements of the exploration controls (C19)
    pub ctrl: u8,
    pub iter_cap: usize,
    /// abort the whole process at the start (false) / in the middle (true) of iteration k (0-based) — C13 crash points
    pub abort_at: Option<(usize, bool)>,
    pub keep_seq: bool,
    pub keep_paths: bool,
    /// user assertion: panic at the end of an iteration that produced exactly this outcome (fault injection)
    pub panic_on_outcome: Option<Vec<u64>>,
    /// C18: see `Shared::record_spun`
    pub record_spun: bool,
}

pub struct RunResult {
    pub outcomes: BTreeSet<Vec<u64>>,
    pub seq: Vec<Vec<u64>>,
    pub orders: BTreeSet<Vec<(u8, u8)>>,
    pub order_seq: Vec<Vec<(u8, u8)>>,
    pub iters: usize,
    pub events: usize,
    pub panic: Option<String>,
    pub paths: Vec<Vec<loom::verif::Branch>>,
    pub hook_calls: usize,
}

impl RunResult {
    pub fn kind(&self) -> Option<PanicKind> {
        self.panic.as_ref().map(|m| classify(m))
    }
}

/// Runs `p` under the real `loom::model::Builder::check` and records every iteration.
/// ctrl: 1 = stop_exploring/explore pair before the first spawn (empty region);
///       2 = region around the final loads after all joins; 3 = region around main's own ops;
///       4 = skip_branch before main's ops; 5 = region around thread 1's ops;
///       6 = expect_explicit_explore + explore() right before the first spawn;
///       7 = region around main's ops except the first one; 8 = stop_exploring() as the very last call of the iteration;
///       11 = expect_explicit_explore, explore() only after the spawns (right before main's ops);
///       9 = skip_branch(); explore() before main's ops; 10 = skip_branch(); stop_exploring(); explore() before main's ops;
///       12 = stop_exploring(); skip_branch(); explore() before main's ops (skip_branch with exploration already off);
///       13 = expect_explicit_explore, skip_branch(); explore() before main's ops (no decision of the run is ever explorable)
pub fn run(p: &Prog, cfg: &Cfg) -> RunResult {
    struct Acc {
        outcomes: BTreeSet<Vec<u64>>,
        seq: Vec<Vec<u64>>,
        orders: BTreeSet<Vec<(u8, u8)>>,
        order_seq: Vec<Vec<(u8, u8)>>,
        events: usize,
    }
    let acc = Arc::new(Mutex::new(Acc { outcomes: BTreeSet::new(), seq: vec![], orders: BTreeSet::new(), order_seq: vec![], events: 0 }));
    let iters = Arc::new(std::sync::atomic::AtomicUsize::new(0));
    let paths: Arc<Mutex<Vec<Vec<loom::verif::Branch>>>> = Arc::new(Mutex::new(Vec::new()));
    let hook_calls = Arc::new(std::sync::atomic::AtomicUsize::new(0));
    {
        let (p2, h2, keep) = (paths.clone(), hook_calls.clone(), cfg.keep_paths);
        loom::verif::set_iteration_hook(Some(Box::new(move |b: &[loom::verif::Branch]| {
            h2.fetch_add(1, std::sync::atomic::Ordering::Relaxed);
            if keep {
                p2.lock().unwrap().push(b.to_vec());
            }
        })));
    }
    let (a2, i2) = (acc.clone(), iters.clone());
    let p2 = Arc::new(p.clone());
    let cfg2 = cfg.clone();
    let res = std::panic::catch_unwind(std::panic::AssertUnwindSafe(|| {
        let mut b = loom::model::Builder::new();
        b.preemption_bound = cfg.preemption_bound;
        if let Some(m) = cfg.max_branches {
            b.max_branches = m;
        }
        b.max_permutations = cfg.max_permutations;
        b.max_duration = cfg.max_duration_ms.map(std::time::Duration::from_millis);
        if let Some(f) = &cfg.checkpoint_file {
            b.checkpoint_file = Some(f.into());
        }
        if let Some(i) = cfg.checkpoint_interval {
            b.checkpoint_interval = i;
        }
        if cfg.ctrl == 6 || cfg.ctrl == 11 || cfg.ctrl == 13 {
            b.expect_explicit_explore = true;
        }
        b.check(move || {
            let it = i2.fetch_add(1, std::sync::atomic::Ordering::Relaxed);
            if it >= cfg2.iter_cap {
                panic!("{}", ITER_CAP_MSG);
            }
            if let Some((k, false)) = cfg2.abort_at {
                if it == k {
                    std::process::abort();
                }
            }
            let ctrl = cfg2.ctrl;
            let log: Arc<Mutex<IterLog>> = Arc::new(Mutex::new(Vec::new()));
            let sh = Arc::new(Shared { locs: (0..p2.nlocs).map(|_| AtomicU64::new(0)).collect(), cells: Cells((0..2).map(|_| loom::cell::UnsafeCell::new(0u64)).collect()), record_spun: cfg2.record_spun });
            let mut out = exec(&p2.pre, 0, 0, &sh, &log);
            if ctrl == 1 {
                loom::stop_exploring();
                loom::explore();
            }
            if ctrl == 6 {
                loom::explore();
            }
            let mut hs = Vec::new();
            let staged = p2.staged();
            for t in 1..p2.threads.len() {
                if staged && p2.spawn_pos(t).is_some() {
                    continue;
                }
                let (p3, s3, l3) = (p2.clone(), sh.clone(), log.clone());
                hs.push(loom::thread::spawn(move || {
                    if ctrl == 5 && t == 1 {
                        loom::stop_exploring();
                    }
                    let r = exec(&p3.threads[t], t as u8, 0, &s3, &l3);
                    if ctrl == 5 && t == 1 {
                        loom::explore();
                    }
                    r
                }));
            }
            if ctrl == 3 {
                loom::stop_exploring();
            }
            if ctrl == 11 {
                // exploration starts here: the spawns above were scheduling decisions taken with exploration off
                loom::explore();
            }
            if ctrl == 12 {
                // skip_branch() inside a stop_exploring() region: the explore() below must stay without effect
                loom::stop_exploring();
            }
            if ctrl == 4 || ctrl == 9 || ctrl == 10 || ctrl == 12 || ctrl == 13 {
                loom::skip_branch();
            }
            // "exploration cannot be restarted by `explore`" after skip_branch (documented): both calls are no-ops here
            if ctrl == 10 {
                loom::stop_exploring();
            }
            if ctrl == 9 || ctrl == 10 || ctrl == 12 || ctrl == 13 {
                loom::explore();
            }
            if ctrl == 7 && p2.threads[0].len() >= 2 {
                // the first operation is taken with exploration on (an explorable decision right before the region)
                out.extend(exec(&p2.threads[0][..1], 0, p2.pre.len() as u8, &sh, &log));
                loom::stop_exploring();
                out.extend(exec(&p2.threads[0][1..], 0, p2.pre.len() as u8 + 1, &sh, &log));
                loom::explore();
            } else if staged {
                // main's operations one by one; the remaining threads are spawned where main says so. The results keep
                // the usual order (main's, then every thread's by index): the late threads' handles are joined by index.
                let mut late: Vec<(usize, loom::thread::JoinHandle<Vec<u64>>)> = Vec::new();
                for (i, op) in p2.threads[0].iter().enumerate() {
                    if let Op::SpawnFrom { .. } = op {
                        for t in 1..p2.threads.len() {
                            if p2.spawn_pos(t) == Some(i) {
                                let (p3, s3, l3) = (p2.clone(), sh.clone(), log.clone());
                                late.push((t, loom::thread::spawn(move || exec(&p3.threads[t], t as u8, 0, &s3, &l3))));
                            }
                        }
                    } else {
                        out.extend(exec(std::slice::from_ref(op), 0, (p2.pre.len() + i) as u8, &sh, &log));
                    }
                }
                // early threads were pushed in index order and all have a smaller index than the late ones
                hs.extend(late.into_iter().map(|(_, h)| h));
            } else {
                out.extend(exec(&p2.threads[0], 0, p2.pre.len() as u8, &sh, &log));
            }
            if ctrl == 3 {
                loom::explore();
            }
            if let Some((k, true)) = cfg2.abort_at {
                if it == k {
                    std::process::abort();
                }
            }
            for h in hs {
                out.extend(h.join().unwrap());
            }
            if ctrl == 2 {
                loom::stop_exploring();
            }
            for l in sh.locs.iter() {
                // every store happens-before this point: a second load and an unsync_load have to agree with the first
                // one (the last store in modification order); a disagreement is recorded as a value no reference has
                let v1 = l.load(std::sync::atomic::Ordering::Relaxed);
                let v2 = l.load(std::sync::atomic::Ordering::Relaxed);
                let vu = unsafe { l.unsync_load() };
                out.push(if v1 == v2 && v1 == vu { v1 } else { INCOHERENT_FINAL });
            }
            if ctrl == 2 {
                loom::explore();
            }
            if ctrl == 8 {
                // the iteration ends with exploration switched off (nothing is decided after this point)
                loom::stop_exploring();
            }
            let lg = log.lock().unwrap();
            let order: Vec<(u8, u8)> = lg.iter().map(|e| (e.0, e.1)).collect();
            let mut a = a2.lock().unwrap();
            a.events += lg.len();
            if cfg2.keep_seq {
                a.seq.push(out.clone());
                a.order_seq.push(order.clone());
            }
            a.orders.insert(order);
            let fail = cfg2.panic_on_outcome.as_ref() == Some(&out);
            a.outcomes.insert(out);
            drop(a);
            drop(lg);
            if fail {
                panic!("{}outcome", USER_PANIC_PREFIX);
            }
        });
    }));
    loom::verif::set_iteration_hook(None);
    let panic = res.err().map(panic_msg);
    let mut a = acc.lock().unwrap();
    let paths = std::mem::take(&mut *paths.lock().unwrap());
    RunResult {
        outcomes: std::mem::take(&mut a.outcomes),
        seq: std::mem::take(&mut a.seq),
        orders: std::mem::take(&mut a.orders),
        order_seq: std::mem::take(&mut a.order_seq),
        iters: iters.load(std::sync::atomic::Ordering::Relaxed),
        events: a.events,
        panic,
        paths,
        hook_calls: hook_calls.load(std::sync::atomic::Ordering::Relaxed),
    }
}
