mod arcs;
mod common;
mod fam_diff;
mod fam_fut;
mod fam_iso;
mod fam_lit;
mod fam_path;
mod fam_race;
mod fam_spin;
mod fam_statics;
mod fam_sync;
mod pathmon;
mod lit;
mod orch;
mod props;
mod rc11;
mod sync;

fn usage() -> ! {
    eprintln!("usage: lv check <C01..C20> [--tier quick|thorough] [--seed N]\n       lv replay <file>\n       lv selftest\n       lv worker <family> <prop> <tier> <seed> <start> <stride> <end>");
    std::process::exit(2)
}

fn main() {
    common::install_silent_hook();
    let a: Vec<String> = std::env::args().collect();
    if a.len() < 2 {
        usage();
    }
    match a[1].as_str() {
        "worker" => {
            orch::worker_main(&a[2..], &props::work);
        }
        "check" => {
            if a.len() < 3 {
                usage();
            }
            let prop = a[2].clone();
            let mut tier = match std::env::var("VERIF_TIER").as_deref() {
                Ok("thorough") => 1u8,
                _ => 0u8,
            };
            let mut seed: u64 = std::env::var("VERIF_SEED").ok().and_then(|s| s.parse().ok()).unwrap_or(0);
            let mut i = 3;
            while i < a.len() {
                match a[i].as_str() {
                    "--tier" => {
                        tier = if a[i + 1] == "thorough" { 1 } else { 0 };
                        i += 2;
                    }
                    "--seed" => {
                        seed = a[i + 1].parse().unwrap_or(0);
                        i += 2;
                    }
                    _ => usage(),
                }
            }
            let code = props::check(&prop, tier, seed);
            std::process::exit(code);
        }
        "replay" => {
            if a.len() < 3 {
                usage();
            }
            std::process::exit(props::replay(&a[2]));
        }
        "child-lit" => std::process::exit(fam_path::child_main(&a[2])),
        "child-iso" => std::process::exit(fam_iso::child_main(a[2].parse().unwrap(), a[3].parse().unwrap())),
        "tsan-lane" => {
            // run by the ThreadSanitizer build: the isolation workload (models on several OS threads at once), in this one process
            let seed: u64 = a[2].parse().unwrap();
            let n: usize = a[3].parse().unwrap();
            let mut bad = 0;
            let mut iters = 0;
            for idx in 0..n {
                let r = fam_iso::work(0, seed, idx);
                iters += r.iters;
                for v in &r.viol {
                    bad += 1;
                    println!("TSAN-LANE-VIOLATION [{}] {}", v.clause, v.detail);
                }
            }
            println!("TSAN-LANE-DONE jobs={} iterations={} violations={}", n, iters, bad);
            std::process::exit(0)
        }
        "child-dtor" => std::process::exit(fam_path::child_dtor(a[2].parse().unwrap())),
        "child-threads" => std::process::exit(fam_path::child_threads(a[2].parse().unwrap(), a[3].parse().unwrap())),
        "shrink" => std::process::exit(props::shrink(&a[2])),
        "ctrl" => std::process::exit(props::ctrl_debug(&a[2], a[3].parse().unwrap())),
        "selftest" => std::process::exit(props::selftest()),
        _ => usage(),
    }
}
