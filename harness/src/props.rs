//! One entry per property: which families it runs, which clauses count, what the evidence says.
use crate::common::*;
use crate::orch::*;
use crate::{arcs, fam_lit, fam_path, fam_race, fam_sync, lit, rc11, sync};
use serde_json::{json, Value};
use std::time::{Duration, Instant};

/// Worker-side dispatch.
pub fn work(family: &str, prop: &str, tier: u8, seed: u64, idx: usize) -> Rec {
    match family {
        "lit" => fam_lit::work(prop, tier, seed, idx),
        "path" => fam_path::work(prop, tier, seed, idx),
        "sync" => fam_sync::work(prop, tier, seed, idx),
        "race" => fam_race::work(tier, seed, idx),
        "arc" => arcs::work(prop, tier, seed, idx),
        _ => {
            let mut r = Rec::new(idx);
            r.status = format!("inconclusive:unknown-family-{}", family);
            r
        }
    }
}

fn samples_from(recs: &[Rec], n: usize) -> Vec<Value> {
    let mut v = Vec::new();
    for r in recs.iter().filter(|r| r.nontrivial && r.extra.get("loom_outcomes").is_some()).take(n) {
        v.push(json!({"program": r.prog, "iterations": r.iters, "loom_outcomes": r.extra["loom_outcomes"], "reference_outcomes": r.extra["reference_outcomes"]}));
    }
    if v.is_empty() {
        for r in recs.iter().filter(|r| r.nontrivial && r.extra.as_object().map(|o| o.len() > 1).unwrap_or(false)).take(n) {
            v.push(json!({"program": r.prog, "model_runs": r.runs, "iterations": r.iters, "observed": r.extra}));
        }
    }
    if v.is_empty() {
        for r in recs.iter().filter(|r| r.nontrivial).take(n) {
            v.push(json!({"program": r.prog, "model_runs": r.runs, "iterations": r.iters, "distinct_outcomes": r.outcomes}));
        }
    }
    v
}

const WD: Duration = Duration::from_secs(900);

struct Def {
    /// (family, number of jobs)
    parts: Vec<(&'static str, usize)>,
    clauses: Vec<&'static str>,
    rule: &'static str,
    trusted: Vec<&'static str>,
    assumptions: Vec<&'static str>,
    min_nontrivial: usize,
}

fn def(prop: &str, tier: u8) -> Option<Def> {
    let path_trusted = vec!["harness/src/pathmon.rs (trie monitor)", "loom feature verif-hooks (read-only snapshot of Path.branches at the end of every iteration)", "harness/src/lit.rs interpreter"];
    Some(match prop {
        "C01" => Def {
            parts: vec![("lit", fam_lit::total(prop, tier)), ("sync", fam_sync::total(prop, tier))],
            clauses: vec!["missing_sc", "unexpected_panic", "missing_outcome", "missed_deadlock", "loom_internal_panic", "process_died"],
            rule: "sync part: every 2-thread x <= 2-op (thorough 3) program over a mutex, try_lock, a SeqCst atomic and join + seeded random programs over mutexes, rwlock, condvar, Notify, channel, park/unpark, join, atomics (2-4 threads); the reference machine enumerates every interleaving, every reference result (or the deadlock) must be produced. litmus part: classic shapes + every 2-thread x 2-op SeqCst program over 2 locations + every 3-thread 1-op RMW/CAS program + seeded random programs (2-4 threads, 1-3 locations, <= 8 memory events); a program is non-trivial when two threads touch a location one of them writes AND the SC reference has >= 2 outcomes; distinct = distinct program texts",
            trusted: vec!["harness/src/rc11.rs outcomes_sc (explicit-state interleaving enumeration)", "harness/src/sync.rs reference machine", "harness/src/lit.rs and sync.rs interpreters"],
            assumptions: vec!["bounded straight-line programs only"],
            min_nontrivial: 100,
        },
        "C02" | "C03" => Def {
            parts: vec![("lit", fam_lit::total(prop, tier))],
            clauses: if prop == "C02" { vec!["missing_strong", "unexpected_panic"] } else { vec!["forbidden_weak", "unexpected_panic"] },
            rule: "classic litmus shapes in every ordering assignment + every 2-thread x 2-op program over one location (loads/stores/swaps in every ordering; thorough: plus fences) + seeded random programs (2-4 threads, 1-3 locations, every ordering, fences, swap/CAS/fetch_add, <= 8 memory events, <= 6 stores per location); non-trivial = two threads touch a location one of them writes AND the reference allows >= 2 outcomes; distinct = distinct program texts",
            trusted: vec!["harness/src/rc11.rs (axiomatic RC11 checker, validated by `lv selftest` against published litmus verdicts)", "harness/src/lit.rs interpreter"],
            assumptions: vec![if prop == "C02" { "strong variant: RC11 as published; outcomes needing load buffering excluded by acyclic(sb ∪ rf)" } else { "weak variant: C++20 release sequences, SeqCst accesses treated as AcqRel, SeqCst fences kept" }],
            min_nontrivial: 100,
        },
        "C14" => Def {
            parts: vec![("path", fam_path::total(prop, tier))],
            clauses: vec!["path_repeat", "path_not_dfs", "path_prefix", "path_kind", "path_order", "path_incomplete", "path_count", "unexpected_panic"],
            rule: "classic litmus shapes + seeded random litmus programs; the decision path of every iteration is recorded through the iteration hook and checked online: all sequences distinct, prefix-contiguous (depth-first), alternatives taken in listed order, nothing left unexplored, hook calls = iterations; non-trivial = the model ran >= 2 iterations",
            trusted: path_trusted.clone(),
            assumptions: vec!["termination is decided in its bounded form: the run must end below the iteration cap"],
            min_nontrivial: 100,
        },
        "C15" => Def {
            parts: vec![("path", fam_path::total(prop, tier))],
            clauses: vec!["preemption_bound_exceeded", "bounded_not_subset", "bounded_not_monotone", "bounded_full_differs", "path_repeat", "path_not_dfs", "path_order", "unexpected_panic"],
            rule: "each program is run unbounded and with preemption_bound = 0..6 and a bound >= its number of operations (9 model runs); preemptions are counted independently of loom's counter, from the decision paths and from the client-boundary log; result sets compared across bounds; non-trivial = >= 2 threads with operations and >= 2 unbounded results",
            trusted: path_trusted.clone(),
            assumptions: vec!["the log-based count is a lower bound of the true preemption count and is only required to be <= n"],
            min_nontrivial: 50,
        },
        "C19" => Def {
            parts: vec![("path", fam_path::total(prop, tier))],
            clauses: vec!["ctrl_explored_in_region", "ctrl_not_subset", "ctrl_lost_outside_region", "ctrl_region_not_marked", "max_branches", "max_permutations", "max_duration", "max_threads", "path_repeat", "path_not_dfs", "path_order", "unexpected_panic"],
            rule: "each program is run unrestricted and with six placements of stop_exploring/explore/skip_branch/expect_explicit_explore, with max_branches = longest path - 1 / exactly the longest path, eight (max_permutations, checkpoint interval) pairs around the exact iteration count, max_duration 0 and 1 h; non-trivial = >= 2 iterations and longest path >= 2",
            trusted: path_trusted.clone(),
            assumptions: vec!["equality with the unrestricted result set is only demanded for regions that provably contain no decision with two alternatives (DESIGN §5-C19)", "wall clock is used only through the two extreme durations"],
            min_nontrivial: 50,
        },
        "C04" => Def {
            parts: vec![("race", fam_race::total(tier)), ("sync", fam_sync::total(prop, tier))],
            clauses: vec!["missed_race", "false_race", "unexpected_panic", "loom_internal_panic", "process_died"],
            rule: "atomics part: a cell written by one thread and accessed by another behind an await loop, connected by every store/load ordering pair over one hop, two hops through a relay, an RMW in between, a same-thread relaxed store, fence pairs of every strength, spawn/join edges, unsync_load against atomic stores (enumerated) + random litmus programs with cell accesses; sync part: cells combined with mutex/rwlock hand-over, channel messages, join, park/unpark, Notify, condvar (pinned + random). must_report = some consistent execution under the strong reading races; must_not_report = none under the weak reading; the gap decides nothing. non-trivial = oracle verdict outside the gap and >= 2 threads with operations",
            trusted: vec!["harness/src/rc11.rs race_verdict", "harness/src/sync.rs reference machine (vector clocks over the documented edges)", "interpreters"],
            assumptions: vec!["an await loop is modelled as a blocking read of a non-zero value", "the sync part uses no atomics (SeqCst atomics may read stale values under loom)"],
            min_nontrivial: 100,
        },
        "C05" => Def {
            parts: vec![("sync", fam_sync::total(prop, tier))],
            clauses: vec!["false_deadlock", "missed_deadlock", "loom_internal_panic", "process_died", "wrong_failure"],
            rule: "every 2-thread x <= 3-op program over two mutexes, park/unpark and join + pinned shapes of the property text + seeded random programs (2-4 threads over mutexes, rwlock, condvar, Notify, channel, park/unpark, join; 15 % share their objects through loom::sync::Arc); the reference machine decides can_deadlock by explicit-state search; non-trivial = >= 2 threads with operations and >= 2 reference terminals or >= 2 loom iterations",
            trusted: vec!["harness/src/sync.rs reference machine (documented std/loom semantics, DESIGN §4.1)", "harness/src/sync.rs interpreter"],
            assumptions: vec!["no re-entrant locking, no recursive reads, one Notify waiter, only the main thread joins and receives"],
            min_nontrivial: 100,
        },
        "C10" => Def {
            parts: vec![("arc", arcs::total(prop, tier)), ("sync", fam_sync::total(prop, tier))],
            clauses: vec!["false_leak", "missed_leak", "loom_internal_panic", "process_died"],
            rule: "arc part: loom::sync::Arc handles cloned, dropped, forgotten, dropped only when a flag was not seen (schedule-dependent leak), try_unwrap, into_raw/from_raw round trips, increment/decrement_strong_count, one alloc::Track value per thread dropped or forgotten, alloc/dealloc pairs and orphans, in 2-3 threads (every handle created before the first spawn); sync part: messages left queued with the receiver dropped (drained) or forgotten. loom must end with a leak panic of a kind the reference's live set can reach, and with none otherwise. non-trivial = >= 2 threads with operations and >= 2 reference terminals or loom iterations",
            trusted: vec!["harness/src/arcs.rs reference-count machine", "harness/src/sync.rs reference machine (message queue)", "interpreters"],
            assumptions: vec!["when Arc and allocation leaks are both reachable either message is accepted"],
            min_nontrivial: 100,
        },
        "C11" => Def {
            parts: vec![("arc", arcs::total(prop, tier))],
            clauses: vec!["replay_invalid", "drop_count", "extra_outcome", "missing_outcome", "false_race", "false_leak", "missed_leak", "loom_internal_panic", "process_died", "false_deadlock"],
            rule: "every 2-thread program with <= 2 (thorough 3) handle operations per thread over clone/drop/strong_count/get_mut + pinned shapes (try_unwrap races, raw round trips, increment/decrement) + random programs (2-3 threads, <= 8 handle operations); every returned count / Option / Result is replayed on a reference-count machine in log order, the payload's destructor must run exactly once per iteration, result sets must equal the reference's, and the payload (read through every handle before its drop, written by the destructor) must not be reported as racing. non-trivial = >= 2 threads with operations and >= 2 reference terminals or loom iterations",
            trusted: vec!["harness/src/arcs.rs reference-count machine + replay", "interpreter (all handles created before the first spawn)"],
            assumptions: vec!["handle-heavy programs explode; <= 8 handle operations per program"],
            min_nontrivial: 100,
        },
        "C06" => Def {
            parts: vec![("sync", fam_sync::total(prop, tier)), ("arc", arcs::total(prop, tier))],
            clauses: vec!["missed_failure", "missed_deadlock", "missed_race", "missed_leak", "wrong_failure", "false_failure", "false_deadlock", "false_race", "false_leak", "loom_internal_panic", "process_died", "dirty_after_failure", "unexpected_branch_limit"],
            rule: "programs over all blocking primitives, SeqCst atomics and cells with injected user assertions (unconditional, or conditioned on the preceding try_lock/try_read/try_write/try_recv result so that the failing iteration is not the first): raised in any thread, while holding mutex / rwlock guards, while other threads are blocked in lock/recv/wait/park/join, before a spawned thread ever ran, with the objects behind std or loom::sync::Arc; pinned shapes of the property text. The reference machine decides which failures are reachable; loom::model must unwind with one of them (and return normally when none is), the worker process must survive, and a probe model run afterwards in the same process must behave exactly as in a fresh process. non-trivial = >= 2 threads with operations and >= 2 reference terminals or loom iterations",
            trusted: vec!["harness/src/sync.rs reference machine", "panic classifier (common.rs)", "interpreters"],
            assumptions: vec!["when several failure kinds are reachable any of them is accepted (loom stops at the first failing iteration)"],
            min_nontrivial: 100,
        },
        "C07" | "C08" | "C09" => Def {
            parts: vec![("sync", fam_sync::total(prop, tier))],
            clauses: vec!["replay_invalid", "extra_outcome", "missing_outcome", "false_race", "false_deadlock", "missed_deadlock", "loom_internal_panic", "false_leak", "missed_leak", "process_died", "missed_race"],
            rule: "enumerated core of the property's primitives (all 2-thread programs up to 3-4 ops) + pinned shapes + seeded random programs; every iteration's client-boundary log is replayed on the reference machine (each return must be enabled and carry the value the specification gives at that instant), outcome sets are compared with the reference in both directions, cells accessed under the primitives' ordering guarantees must not be reported as races; non-trivial = >= 2 threads with operations and >= 2 reference terminals or loom iterations",
            trusted: vec!["harness/src/sync.rs reference machine + replay monitor", "harness/src/sync.rs interpreter"],
            assumptions: vec!["notify_one: completeness assumes loom's FIFO choice, soundness accepts any waiter", "SeqCst atomics only give a lower bound (stale reads are legal for loom)"],
            min_nontrivial: 100,
        },
        "C13" => Def {
            parts: vec![("path", fam_path::total(prop, tier))],
            clauses: vec!["nondeterministic", "checkpoint_resume", "checkpoint_failure_replay", "unexpected_panic"],
            rule: "programs with 3..=120 (thorough 400) iterations; per program: two runs in one process and two fresh processes compared (outcomes, execution orders, decision paths); every stop point k in 1..N x intervals 1,2,3,7 and a random one through a real checkpoint file; process aborts at the start / in the middle of iteration k resumed in a fresh process; three failing iterations (first, middle, last) reloaded from their checkpoint; non-trivial = program in the iteration range",
            trusted: path_trusted,
            assumptions: vec!["a crash while loom writes the checkpoint file is not injected"],
            min_nontrivial: 10,
        },
        _ => return None,
    })
}

/// Orchestrator-side description of a program whose worker died (timeouts stay inconclusive).
fn died(family: &str, prop: &str, tier: u8, seed: u64, idx: usize, status: &str) -> Option<Rec> {
    if status == "timeout" {
        return None;
    }
    match family {
        "sync" => Some(fam_sync::describe_died(prop, tier, seed, idx, status)),
        "arc" => Some(arcs::describe_died(prop, tier, seed, idx, status)),
        _ => None,
    }
}

pub fn check(prop: &str, tier: u8, seed: u64) -> i32 {
    let t0 = Instant::now();
    let d = match def(prop, tier) {
        Some(d) => d,
        None => {
            eprintln!("lv: property {} has no check", prop);
            return 2;
        }
    };
    let mut recs: Vec<Rec> = Vec::new();
    for (fam, total) in &d.parts {
        let mut r = run_family(fam, prop, tier, seed, *total, WD, died);
        let base = recs.len();
        for x in r.iter_mut() {
            x.idx += base;
        }
        recs.extend(r);
    }
    let mut extra = serde_json::Map::new();
    // per-record extras that are worth aggregating
    let mut stop_pairs = 0u64;
    for r in &recs {
        stop_pairs += r.extra.get("stop_resume_pairs").and_then(|v| v.as_u64()).unwrap_or(0);
    }
    if stop_pairs > 0 {
        extra.insert("stop_resume_pairs".into(), json!(stop_pairs));
    }
    let clauses: Vec<&str> = d.clauses.clone();
    finish(
        Check {
            prop,
            tier,
            seed,
            clauses: &clauses,
            rule: d.rule.to_string(),
            trusted_base: d.trusted.iter().map(|s| s.to_string()).collect(),
            assumptions: d.assumptions.iter().map(|s| s.to_string()).collect(),
            extra: Value::Object(extra),
            samples: samples_from(&recs, 5),
            exhaustive: false,
            min_nontrivial: d.min_nontrivial,
            sanitizer: Value::Null,
        },
        &recs,
        t0,
    )
}

pub fn replay(path: &str) -> i32 {
    let s = match std::fs::read_to_string(path) {
        Ok(s) => s,
        Err(e) => {
            eprintln!("cannot read {}: {}", path, e);
            return 2;
        }
    };
    let v: Value = serde_json::from_str(&s).expect("replay file is not JSON");
    let prop = v["property"].as_str().unwrap_or("");
    let family = v["family"].as_str().unwrap_or("lit");
    let mut rec = Rec::new(0);
    match family {
        "lit" => {
            let p: lit::Prog = serde_json::from_value(v["program_json"].clone()).expect("program_json");
            fam_lit::judge(prop, &p, &mut rec, true, 1);
        }
        "sync" => {
            let p: sync::SProg = serde_json::from_value(v["program_json"].clone()).expect("program_json");
            fam_sync::judge(prop, &p, &mut rec, 1, true);
        }
        "arc" => {
            let p: arcs::AProg = serde_json::from_value(v["program_json"].clone()).expect("program_json");
            arcs::judge(&p, &mut rec, 1, true);
        }
        "race" => {
            let p: lit::Prog = serde_json::from_value(v["program_json"].clone()).expect("program_json");
            fam_race::judge(&p, &mut rec, 1, true);
        }
        "path" => {
            let p: lit::Prog = serde_json::from_value(v["program_json"].clone()).expect("program_json");
            fam_path::judge(prop, &p, &mut rec, 1, v["seed"].as_u64().unwrap_or(0), v["idx"].as_u64().unwrap_or(0) as usize);
        }
        _ => {
            eprintln!("unknown family in replay file");
            return 2;
        }
    }
    println!("program: {}", rec.prog);
    println!("status: {}  iterations: {}  outcomes: {}", rec.status, rec.iters, rec.outcomes);
    println!("{}", serde_json::to_string_pretty(&rec.extra).unwrap());
    for v in &rec.viol {
        println!("VIOLATION property={} replay={}  [{}] {}", prop, path, v.clause, v.detail);
    }
    if rec.viol.is_empty() {
        0
    } else {
        1
    }
}

/// Delta-debugging shrinker for litmus witnesses: drops ops while the same clause still fails.
pub fn shrink(path: &str) -> i32 {
    let s = std::fs::read_to_string(path).expect("read");
    let v: Value = serde_json::from_str(&s).expect("json");
    let prop = v["property"].as_str().unwrap_or("").to_string();
    let clause = v["clause"].as_str().unwrap_or("").to_string();
    let mut p: lit::Prog = serde_json::from_value(v["program_json"].clone()).expect("program_json");
    let fails = |p: &lit::Prog| -> bool {
        let mut rec = Rec::new(0);
        fam_lit::judge(&prop, p, &mut rec, false, 1);
        rec.viol.iter().any(|x| x.clause == clause)
    };
    if !fails(&p) {
        println!("does not fail any more");
        return 0;
    }
    loop {
        let mut progressed = false;
        if !p.pre.is_empty() {
            let mut q = p.clone();
            q.pre.clear();
            if fails(&q) {
                p = q;
                progressed = true;
            }
        }
        'outer: for t in 0..p.threads.len() {
            for i in 0..p.threads[t].len() {
                let mut q = p.clone();
                q.threads[t].remove(i);
                if fails(&q) {
                    p = q;
                    progressed = true;
                    break 'outer;
                }
            }
        }
        // drop empty trailing threads
        while p.threads.len() > 1 && p.threads.last().unwrap().is_empty() {
            let mut q = p.clone();
            q.threads.pop();
            if fails(&q) {
                p = q;
            } else {
                break;
            }
        }
        // weaken orderings is NOT tried (changes the defect); but relax SC->AcqRel-class is informative: skip
        if !progressed {
            break;
        }
    }
    let mut rec = Rec::new(0);
    fam_lit::judge(&prop, &p, &mut rec, true, 1);
    println!("minimal: {}", p.s());
    println!("{}", serde_json::to_string(&serde_json::to_value(&p).unwrap()).unwrap());
    println!("{}", serde_json::to_string_pretty(&rec.extra).unwrap());
    for v in &rec.viol {
        println!("[{}] {}", v.clause, v.detail);
    }
    1
}

/// Validates the oracles against published verdicts (DESIGN §9).
pub fn selftest() -> i32 {
    use lit::{Op, Ord_::*, Prog};
    use rc11::*;
    let ld = |loc, ord| Op::Load { loc, ord };
    let st = |loc, val, ord| Op::Store { loc, val, ord };
    let f = |ord| Op::Fence { ord };
    let pr = |nlocs, threads| Prog { nlocs, pre: vec![], threads };
    let mut cases: Vec<(&str, Prog, Vec<u64>, bool, bool)> = Vec::new();
    cases.push(("MP rlx", pr(2, vec![vec![], vec![st(0, 1, Rlx), st(1, 1, Rlx)], vec![ld(1, Rlx), ld(0, Rlx)]]), vec![1, 0, 1, 1], true, true));
    cases.push(("MP rel/acq", pr(2, vec![vec![], vec![st(0, 1, Rlx), st(1, 1, Rel)], vec![ld(1, Acq), ld(0, Rlx)]]), vec![1, 0, 1, 1], false, false));
    cases.push(("MP fences", pr(2, vec![vec![], vec![st(0, 1, Rlx), f(Rel), st(1, 1, Rlx)], vec![ld(1, Rlx), f(Acq), ld(0, Rlx)]]), vec![1, 0, 1, 1], false, false));
    cases.push(("MP rel fence only", pr(2, vec![vec![], vec![st(0, 1, Rlx), f(Rel), st(1, 1, Rlx)], vec![ld(1, Rlx), ld(0, Rlx)]]), vec![1, 0, 1, 1], true, true));
    cases.push(("SB rel/acq", pr(2, vec![vec![], vec![st(0, 1, Rel), ld(1, Acq)], vec![st(1, 1, Rel), ld(0, Acq)]]), vec![0, 0, 1, 1], true, true));
    cases.push(("SB sc accesses", pr(2, vec![vec![], vec![st(0, 1, Sc), ld(1, Sc)], vec![st(1, 1, Sc), ld(0, Sc)]]), vec![0, 0, 1, 1], false, true));
    cases.push(("SB sc fences", pr(2, vec![vec![], vec![st(0, 1, Rlx), f(Sc), ld(1, Rlx)], vec![st(1, 1, Rlx), f(Sc), ld(0, Rlx)]]), vec![0, 0, 1, 1], false, false));
    cases.push(("SB acqrel fences", pr(2, vec![vec![], vec![st(0, 1, Rlx), f(AcqRel), ld(1, Rlx)], vec![st(1, 1, Rlx), f(AcqRel), ld(0, Rlx)]]), vec![0, 0, 1, 1], true, true));
    cases.push(("LB rlx", pr(2, vec![vec![], vec![ld(0, Rlx), st(1, 1, Rlx)], vec![ld(1, Rlx), st(0, 1, Rlx)]]), vec![1, 1, 1, 1], false, false));
    cases.push(("CoRR", pr(1, vec![vec![], vec![st(0, 1, Rlx)], vec![ld(0, Rlx), ld(0, Rlx)]]), vec![1, 0, 1], false, false));
    cases.push(("CoRR ok", pr(1, vec![vec![], vec![st(0, 1, Rlx)], vec![ld(0, Rlx), ld(0, Rlx)]]), vec![0, 1, 1], true, true));
    cases.push(("2+2W rlx", pr(2, vec![vec![], vec![st(0, 1, Rlx), st(1, 2, Rlx)], vec![st(1, 1, Rlx), st(0, 2, Rlx)]]), vec![1, 1], true, true));
    cases.push(("2+2W sc", pr(2, vec![vec![], vec![st(0, 1, Sc), st(1, 2, Sc)], vec![st(1, 1, Sc), st(0, 2, Sc)]]), vec![1, 1], false, true));
    cases.push(("IRIW acq", pr(2, vec![vec![st(0, 1, Rel)], vec![st(1, 1, Rel)], vec![ld(0, Acq), ld(1, Acq)], vec![ld(1, Acq), ld(0, Acq)]]), vec![1, 0, 1, 0, 1, 1], true, true));
    cases.push(("IRIW sc", pr(2, vec![vec![st(0, 1, Sc)], vec![st(1, 1, Sc)], vec![ld(0, Sc), ld(1, Sc)], vec![ld(1, Sc), ld(0, Sc)]]), vec![1, 0, 1, 0, 1, 1], false, true));
    cases.push(("IRIW sc fences", pr(2, vec![vec![st(0, 1, Rlx)], vec![st(1, 1, Rlx)], vec![ld(0, Rlx), f(Sc), ld(1, Rlx)], vec![ld(1, Rlx), f(Sc), ld(0, Rlx)]]), vec![1, 0, 1, 0, 1, 1], false, false));
    cases.push(("WRC rlx-read (CoRR through hb)", pr(2, vec![vec![], vec![st(0, 1, Rlx)], vec![ld(0, Rlx), st(1, 1, Rel)], vec![ld(1, Acq), ld(0, Rlx)]]), vec![1, 1, 0, 1, 1], false, false));
    cases.push(("WRC acq-read", pr(2, vec![vec![], vec![st(0, 1, Rel)], vec![ld(0, Acq), st(1, 1, Rel)], vec![ld(1, Acq), ld(0, Rlx)]]), vec![1, 1, 0, 1, 1], false, false));
    cases.push(("ISA2", pr(3, vec![vec![], vec![st(0, 1, Rlx), st(1, 1, Rel)], vec![ld(1, Acq), st(2, 1, Rel)], vec![ld(2, Acq), ld(0, Rlx)]]), vec![1, 1, 0, 1, 1, 1], false, false));
    cases.push(("relseq rmw", pr(2, vec![vec![], vec![st(1, 1, Rlx), st(0, 1, Rel)], vec![Op::Swap { loc: 0, val: 2, ord: Rlx }], vec![ld(0, Acq), ld(1, Rlx)]]), vec![1, 2, 0, 2, 1], false, false));
    cases.push(("relseq same-thread", pr(2, vec![vec![], vec![st(1, 1, Rlx), st(0, 1, Rel), st(0, 2, Rlx)], vec![ld(0, Acq), ld(1, Rlx)]]), vec![2, 0, 2, 1], false, true));
    cases.push(("relseq broken by other store", pr(2, vec![vec![], vec![st(1, 1, Rlx), st(0, 1, Rel)], vec![st(0, 2, Rlx)], vec![ld(0, Acq), ld(1, Rlx)]]), vec![2, 0, 2, 1], true, true));
    cases.push(("rmw atomicity", pr(1, vec![vec![Op::Swap { loc: 0, val: 2, ord: Rlx }], vec![st(0, 1, Rlx)]]), vec![0, 2], false, false));
    cases.push(("rmw ok", pr(1, vec![vec![Op::Swap { loc: 0, val: 2, ord: Rlx }], vec![st(0, 1, Rlx)]]), vec![0, 1], true, true));
    cases.push(("2 fadd lost update", pr(1, vec![vec![Op::FetchAdd { loc: 0, add: 64, ord: Rlx }], vec![Op::FetchAdd { loc: 0, add: 128, ord: Rlx }]]), vec![0, 0, 128], false, false));
    cases.push(("fence-fence sync", pr(2, vec![vec![], vec![st(0, 1, Rlx), f(Rel), st(1, 1, Rlx)], vec![ld(1, Rlx), f(Acq), ld(0, Rlx)]]), vec![1, 1, 1, 1], true, true));
    cases.push(("C02 text: acquire fence through another thread's relaxed read", pr(3, vec![vec![ld(2, Acq), f(Acq), ld(1, Rlx)], vec![st(1, 1, Rlx), st(0, 2, Rel)], vec![ld(0, Rlx), st(2, 3, Rel)]]), vec![3, 0, 2, 2, 1, 3], true, true));
    cases.push(("spawn edge (pre)", Prog { nlocs: 1, pre: vec![st(0, 9, Rlx)], threads: vec![vec![], vec![ld(0, Rlx)]] }, vec![0, 9], false, false));
    let mut bad = 0;
    for (name, p, o, es, ew) in &cases {
        let mut stt = Stats { budget: 10_000_000, ..Default::default() };
        let (s, w) = allowed_both(p, &mut stt).expect("budget");
        let (gs, gw) = (s.contains(o), w.contains(o));
        let ok = gs == *es && gw == *ew && s.is_subset(&w);
        if !ok {
            bad += 1;
        }
        println!("{:62} outcome {:?}: strong={} (exp {}) weak={} (exp {}) {}   |strong|={} |weak|={}", name, o, gs, es, gw, ew, if ok { "ok" } else { "MISMATCH" }, s.len(), w.len());
    }
    // strong ⊆ weak ⊇ SC on random programs; SC ⊆ strong
    let mut rng = Rng::new(7, 7);
    let a = lit::Alpha { nlocs: 2, rmw: true, cas: true, fadd: true, fences: true, sc_only: false };
    let mut n = 0;
    for _ in 0..1500 {
        let nt = 2 + rng.below(2);
        let p = lit::random_prog(&mut rng, nt, 2, 2, 6, a);
        let mut stt = Stats { budget: 2_000_000, ..Default::default() };
        if let Ok((s, w)) = allowed_both(&p, &mut stt) {
            let (sc, _) = outcomes_sc(&p);
            n += 1;
            if !s.is_subset(&w) {
                bad += 1;
                println!("strong ⊄ weak: {}", p.s());
            }
            if !sc.is_subset(&s) {
                bad += 1;
                println!("SC ⊄ strong: {}", p.s());
            }
        }
    }
    println!("subset sanity on {} random programs; mismatches: {}", n, bad);
    if bad == 0 {
        0
    } else {
        1
    }
}
