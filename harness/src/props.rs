//! One entry per property: which families it runs, which clauses count, what the evidence says.
use crate::common::*;
use crate::orch::*;
use crate::{arcs, fam_diff, fam_fut, fam_iso, fam_spin, fam_statics, fam_lit, fam_path, fam_race, fam_sync, lit, rc11, sync};
use serde_json::{json, Value};
use std::time::{Duration, Instant};

/// Worker-side dispatch.
pub fn work(family: &str, prop: &str, tier: u8, seed: u64, idx: usize) -> Rec {
    match family {
        "lit" => fam_lit::work(prop, tier, seed, idx),
        "path" => fam_path::work(prop, tier, seed, idx),
        "sync" => fam_sync::work(prop, tier, seed, idx),
        "race" => fam_race::work(tier, seed, idx),
        "arc" => arcs::work(prop, tier, seed, idx),
        "arcgate" => arcs::gate_work(idx),
        "rmwspin" => fam_spin::rmw_work(idx),
        "diff" => fam_diff::work(tier, seed, idx),
        "iso" => fam_iso::work(tier, seed, idx),
        "spin" => fam_spin::work(tier, seed, idx),
        "fut" => fam_fut::work(tier, seed, idx),
        "statics" => fam_statics::work(tier, seed, idx),
        _ => {
            let mut r = Rec::new(idx);
            r.status = format!("inconclusive:unknown-family-{}", family);
            r
        }
    }
}

fn samples_from(recs: &[Rec], n: usize) -> Vec<Value> {
    let mut v = Vec::new();
    for r in recs.iter().filter(|r| r.nontrivial && r.extra.get("loom_outcomes").is_some()).take(n) {
        v.push(json!({"program": r.prog, "iterations": r.iters, "loom_outcomes": r.extra["loom_outcomes"], "reference_outcomes": r.extra["reference_outcomes"]}));
    }
    if v.is_empty() {
        for r in recs.iter().filter(|r| r.nontrivial && r.extra.get("first_sequence").map(|x| x.as_array().map(|a| !a.is_empty()).unwrap_or(false)).unwrap_or(false)).take(n) {
            v.push(json!({"case": r.prog, "observed": r.extra}));
        }
    }
    if v.is_empty() {
        for r in recs.iter().filter(|r| r.nontrivial && r.extra.as_object().map(|o| o.len() > 1).unwrap_or(false)).take(n) {
            v.push(json!({"program": r.prog, "model_runs": r.runs, "iterations": r.iters, "observed": r.extra}));
        }
    }
    if v.is_empty() {
        for r in recs.iter().filter(|r| r.nontrivial).take(n) {
            v.push(json!({"program": r.prog, "model_runs": r.runs, "iterations": r.iters, "distinct_outcomes": r.outcomes}));
        }
    }
    v
}

const WD: Duration = Duration::from_secs(900);

struct Def {
    /// (family, number of jobs)
    parts: Vec<(&'static str, usize)>,
    /// programs of each part to re-run under valgrind memcheck (quick, thorough); 0 = no sanitizer lane
    memcheck: (usize, usize),
    clauses: Vec<&'static str>,
    rule: &'static str,
    trusted: Vec<&'static str>,
    assumptions: Vec<&'static str>,
    min_nontrivial: usize,
}

fn def(prop: &str, tier: u8) -> Option<Def> {
    // programs per family re-run under valgrind memcheck (quick, thorough): the properties whose
    // workloads drive loom's unsafe paths (unwinding through coroutines and guards, raw pointers in
    // sync::Arc, alloc tracking, transmuted borrows of statics, raw wakers, state reuse across models)
    let mc: (usize, usize) = match prop {
        "C05" => (48, 600),
        "C06" => (64, 3000),
        "C10" => (24, 2000),
        "C11" => (64, 2000),
        "C16" => (0, 32),
        "C17" => (96, 2000),
        "C20" => (32, 400),
        _ => (0, 0),
    };
    let path_trusted = vec!["harness/src/pathmon.rs (trie monitor)", "loom feature verif-hooks (read-only snapshot of Path.branches at the end of every iteration)", "harness/src/lit.rs interpreter"];
    Some(match prop {
        "C01" => Def {
            memcheck: mc,
            parts: vec![("lit", fam_lit::total(prop, tier)), ("sync", fam_sync::total(prop, tier)), ("arc", arcs::total(prop, tier))],
            clauses: vec!["missing_sc", "unexpected_panic", "missing_outcome", "missed_deadlock", "loom_internal_panic", "process_died"],
            rule: "sync part: every 2-thread x <= 2-op (thorough 3) program over a mutex, try_lock, a SeqCst atomic and join + seeded random programs over mutexes, rwlock, condvar, Notify, channel, park/unpark, join, atomics (2-4 threads); the reference machine enumerates every interleaving, every reference result (or the deadlock) must be produced. arc part: the Arc programs of C11 (incl. one handle reached by reference from every thread), every result vector of the reference-count machine must be produced. litmus part: classic shapes + every 2-thread x 2-op SeqCst program over 2 locations + every 3-thread 1-op RMW/CAS program + seeded random programs (2-4 threads, 1-3 locations, <= 8 memory events); a program is non-trivial when two threads touch a location one of them writes AND the SC reference has >= 2 outcomes; distinct = distinct program texts",
            trusted: vec!["harness/src/rc11.rs outcomes_sc (explicit-state interleaving enumeration)", "harness/src/sync.rs reference machine", "harness/src/lit.rs and sync.rs interpreters"],
            assumptions: vec!["bounded straight-line programs only"],
            min_nontrivial: 100,
        },
        "C02" | "C03" => Def {
            memcheck: mc,
            parts: vec![("lit", fam_lit::total(prop, tier))],
            clauses: if prop == "C02" { vec!["missing_strong", "unexpected_panic"] } else { vec!["forbidden_weak", "unexpected_panic"] },
            rule: "classic litmus shapes in every ordering assignment + every 2-thread x 2-op program over one location (loads/stores/swaps in every ordering; thorough: plus fences) + seeded random programs (2-4 threads, 1-3 locations, every ordering, fences, swap/CAS/fetch_add, <= 8 memory events, <= 6 stores per location); non-trivial = two threads touch a location one of them writes AND the reference allows >= 2 outcomes; distinct = distinct program texts",
            trusted: vec!["harness/src/rc11.rs (axiomatic RC11 checker, validated by `lv selftest` against published litmus verdicts)", "harness/src/lit.rs interpreter"],
            assumptions: vec![if prop == "C02" { "strong variant: RC11 as published; outcomes needing load buffering excluded by acyclic(sb ∪ rf)" } else { "weak variant: C++20 release sequences, SeqCst accesses treated as AcqRel, SeqCst fences kept" }],
            min_nontrivial: 100,
        },
        "C14" => Def {
            memcheck: mc,
            parts: vec![("path", fam_path::total(prop, tier))],
            clauses: vec!["path_repeat", "path_not_dfs", "path_prefix", "path_kind", "path_order", "path_incomplete", "path_count", "unexpected_panic", "ctrl_explored_in_region"],
            rule: "classic litmus shapes + seeded random litmus programs; the decision path of every iteration is recorded through the iteration hook and checked online: all sequences distinct, prefix-contiguous (depth-first), alternatives taken in listed order, nothing left unexplored, hook calls = iterations; non-trivial = the model ran >= 2 iterations",
            trusted: path_trusted.clone(),
            assumptions: vec!["termination is decided in its bounded form: the run must end below the iteration cap"],
            min_nontrivial: 100,
        },
        "C15" => Def {
            memcheck: mc,
            parts: vec![("path", fam_path::total(prop, tier))],
            clauses: vec!["preemption_bound_exceeded", "bounded_not_subset", "bounded_not_monotone", "bounded_full_differs", "path_repeat", "path_not_dfs", "path_order", "unexpected_panic"],
            rule: "each program is run unbounded and with preemption_bound = 0..6 and a bound >= its number of operations (9 model runs); preemptions are counted independently of loom's counter, from the decision paths and from the client-boundary log; result sets compared across bounds; non-trivial = >= 2 threads with operations and >= 2 unbounded results",
            trusted: path_trusted.clone(),
            assumptions: vec!["the log-based count is a lower bound of the true preemption count and is only required to be <= n"],
            min_nontrivial: 50,
        },
        "C19" => Def {
            memcheck: mc,
            parts: vec![("path", fam_path::total(prop, tier))],
            clauses: vec!["ctrl_explored_in_region", "ctrl_not_subset", "ctrl_lost_outside_region", "ctrl_region_not_marked", "ctrl_skip_restarted", "max_branches", "max_permutations", "max_duration", "max_threads", "path_repeat", "path_not_dfs", "path_order", "unexpected_panic"],
            rule: "each program is run unrestricted and with six placements of stop_exploring/explore/skip_branch/expect_explicit_explore, with max_branches = longest path - 1 / exactly the longest path, eight (max_permutations, checkpoint interval) pairs around the exact iteration count, max_duration 0 and 1 h; non-trivial = >= 2 iterations and longest path >= 2",
            trusted: path_trusted.clone(),
            assumptions: vec!["equality with the unrestricted result set is only demanded for regions that provably contain no decision with two alternatives (DESIGN §5-C19)", "wall clock is used only through the two extreme durations"],
            min_nontrivial: 50,
        },
        "C04" => Def {
            memcheck: mc,
            parts: vec![("race", fam_race::total(tier)), ("sync", fam_sync::total(prop, tier)), ("arcgate", arcs::gate_total())],
            clauses: vec!["missed_race", "false_race", "unexpected_panic", "loom_internal_panic", "process_died"],
            rule: "atomics part: a cell written by one thread and accessed by another behind an await loop, connected by every store/load ordering pair over one hop, two hops through a relay, an RMW in between, a same-thread relaxed store, fence pairs of every strength, spawn/join edges, unsync_load against atomic stores (enumerated) + random litmus programs with cell accesses; sync part: cells combined with mutex/rwlock hand-over, channel messages, join, park/unpark, Notify, condvar (pinned + random). must_report = some consistent execution under the strong reading races; must_not_report = none under the weak reading; the gap decides nothing. non-trivial = oracle verdict outside the gap and >= 2 threads with operations",
            trusted: vec!["harness/src/rc11.rs race_verdict", "harness/src/sync.rs reference machine (vector clocks over the documented edges)", "interpreters"],
            assumptions: vec!["an await loop is modelled as a blocking read of a non-zero value", "the sync part uses no atomics (SeqCst atomics may read stale values under loom)"],
            min_nontrivial: 100,
        },
        "C05" => Def {
            memcheck: mc,
            parts: vec![("sync", fam_sync::total(prop, tier))],
            clauses: vec!["false_deadlock", "missed_deadlock", "loom_internal_panic", "process_died", "wrong_failure"],
            rule: "every 2-thread x <= 3-op program over two mutexes, park/unpark and join + pinned shapes of the property text + seeded random programs (2-4 threads over mutexes, rwlock, condvar, Notify, channel, park/unpark, join; 15 % share their objects through loom::sync::Arc); the reference machine decides can_deadlock by explicit-state search; non-trivial = >= 2 threads with operations and >= 2 reference terminals or >= 2 loom iterations",
            trusted: vec!["harness/src/sync.rs reference machine (documented std/loom semantics, DESIGN §4.1)", "harness/src/sync.rs interpreter"],
            assumptions: vec!["no re-entrant locking, no recursive reads, one Notify waiter, only the main thread joins and receives"],
            min_nontrivial: 100,
        },
        "C10" => Def {
            memcheck: mc,
            parts: vec![("arc", arcs::total(prop, tier)), ("sync", fam_sync::total(prop, tier))],
            clauses: vec!["false_leak", "missed_leak", "loom_internal_panic", "process_died"],
            rule: "arc part: loom::sync::Arc handles cloned, dropped, forgotten, dropped only when a flag was not seen (schedule-dependent leak), try_unwrap, into_raw/from_raw round trips, increment/decrement_strong_count, one alloc::Track value per thread dropped or forgotten, alloc/dealloc pairs and orphans, in 2-3 threads (every handle created before the first spawn); sync part: messages left queued with the receiver dropped (drained) or forgotten. loom must end with a leak panic of a kind the reference's live set can reach, and with none otherwise. non-trivial = >= 2 threads with operations and >= 2 reference terminals or loom iterations",
            trusted: vec!["harness/src/arcs.rs reference-count machine", "harness/src/sync.rs reference machine (message queue)", "interpreters"],
            assumptions: vec!["when Arc and allocation leaks are both reachable either message is accepted"],
            min_nontrivial: 100,
        },
        "C11" => Def {
            memcheck: mc,
            parts: vec![("arc", arcs::total(prop, tier))],
            clauses: vec!["replay_invalid", "drop_count", "extra_outcome", "missing_outcome", "false_race", "false_leak", "missed_leak", "loom_internal_panic", "process_died", "false_deadlock"],
            rule: "every 2-thread program with <= 2 (thorough 3) handle operations per thread over clone/drop/strong_count/get_mut + pinned shapes (try_unwrap races, raw round trips, increment/decrement) + random programs (2-3 threads, <= 8 handle operations); every returned count / Option / Result is replayed on a reference-count machine in log order, the payload's destructor must run exactly once per iteration, result sets must equal the reference's, and the payload (read through every handle before its drop, written by the destructor) must not be reported as racing. non-trivial = >= 2 threads with operations and >= 2 reference terminals or loom iterations",
            trusted: vec!["harness/src/arcs.rs reference-count machine + replay", "interpreter (all handles created before the first spawn)"],
            assumptions: vec!["handle-heavy programs explode; <= 8 handle operations per program"],
            min_nontrivial: 100,
        },
        "C06" => Def {
            memcheck: mc,
            // the thread-local / lazy-static programs (none of which can fail) count for the "and only then" half
            parts: vec![("sync", fam_sync::total(prop, tier)), ("arc", arcs::total(prop, tier)), ("statics", fam_statics::total(tier).min(if tier == 0 { 800 } else { 4000 }))],
            clauses: vec!["unexpected_panic", "missed_failure", "missed_deadlock", "missed_race", "missed_leak", "wrong_failure", "false_failure", "false_deadlock", "false_race", "false_leak", "loom_internal_panic", "process_died", "dirty_after_failure", "unexpected_branch_limit", "panic_state_leaked"],
            rule: "programs over all blocking primitives, SeqCst atomics and cells with injected user assertions (unconditional, or conditioned on the preceding try_lock/try_read/try_write/try_recv result so that the failing iteration is not the first): raised in any thread, while holding mutex / rwlock guards, while other threads are blocked in lock/recv/wait/park/join, before a spawned thread ever ran, with the objects behind std or loom::sync::Arc; pinned shapes of the property text. The reference machine decides which failures are reachable; loom::model must unwind with one of them (and return normally when none is), the worker process must survive, and a probe model run afterwards in the same process must behave exactly as in a fresh process. non-trivial = >= 2 threads with operations and >= 2 reference terminals or loom iterations",
            trusted: vec!["harness/src/sync.rs reference machine", "panic classifier (common.rs)", "interpreters"],
            assumptions: vec!["when several failure kinds are reachable any of them is accepted (loom stops at the first failing iteration)"],
            min_nontrivial: 100,
        },
        "C07" | "C08" | "C09" => Def {
            memcheck: mc,
            parts: vec![("sync", fam_sync::total(prop, tier))],
            clauses: vec!["replay_invalid", "extra_outcome", "missing_outcome", "false_race", "false_deadlock", "missed_deadlock", "loom_internal_panic", "false_leak", "missed_leak", "process_died", "missed_race"],
            rule: "enumerated core of the property's primitives (all 2-thread programs up to 3-4 ops) + pinned shapes + seeded random programs; every iteration's client-boundary log is replayed on the reference machine (each return must be enabled and carry the value the specification gives at that instant), outcome sets are compared with the reference in both directions, cells accessed under the primitives' ordering guarantees must not be reported as races; non-trivial = >= 2 threads with operations and >= 2 reference terminals or loom iterations",
            trusted: vec!["harness/src/sync.rs reference machine + replay monitor", "harness/src/sync.rs interpreter"],
            assumptions: vec!["notify_one: completeness assumes loom's FIFO choice, soundness accepts any waiter", "SeqCst atomics only give a lower bound (stale reads are legal for loom)"],
            min_nontrivial: 100,
        },
        "C12" => Def {
            memcheck: mc,
            parts: vec![("diff", fam_diff::total(tier))],
            clauses: vec!["value_mismatch"],
            rule: "for each of AtomicU8..U64/Usize, I8..I64/Isize, Bool, Ptr: seeded random operation sequences (quick 60, thorough 120 ops) applied side by side to the loom atomic (inside a single-threaded loom::model) and the std atomic: load, store, swap, compare_exchange(_weak), compare_and_swap, fetch_add/sub/and/nand/or/xor/max/min, fetch_update with a closure that declines chosen values, with_mut, unsync_load, into_inner/new; operands boundary-biased (0, 1, 2, MAX, MAX-1, MIN, MIN+1, -1, sign bit, values >= 2^32, random); every valid ordering; every return value and the final content compared; one job = 50 sequences of one type; non-trivial = the batch exercised >= 5 operation kinds; one iteration per model is asserted",
            trusted: vec!["std::sync::atomic as the sequential model"],
            assumptions: vec!["compare_exchange_weak is compared with std's strong variant (std's weak one may fail spuriously)"],
            min_nontrivial: 12,
        },
        "C17" => Def {
            memcheck: mc,
            parts: vec![("statics", fam_statics::total(tier))],
            clauses: vec!["static_semantics", "static_init_not_ordered", "unexpected_panic", "iteration_state_leaks"],
            rule: "two loom::thread_local! keys and two loom::lazy_static! values declared in the harness whose init and Drop bump std counters: every 2-thread program with <= 2 static accesses per thread (with, nested with, try_with, lazy deref), all single-thread lists, 4-thread first-access races, + random programs (1-4 threads, <= 3 accesses, SeqCst atomics in between so that first-access races are explored, main joining before or after its own accesses). Per iteration (at the iteration hook): thread-local init count = number of threads touching the key, drops = inits, values private to their thread, try_with on the key under destruction = AccessError, lazy init count = 1 iff touched, one instance address for all threads, dropped by the end of the iteration and re-initialised in the next; a causality panic on the cell written inside init = missing init -> access edge; a third lazy static whose initialiser yields (init count must still be 1: known finding when two first accesses race); programs whose thread-local destructors start with a scheduling point, with a monitor in the joiner (after join(t) every thread-local of t has been dropped). non-trivial = the program touches a static",
            trusted: vec!["counters in std atomics (invisible to loom)", "iteration hook as the end-of-iteration point"],
            assumptions: vec!["destructors that re-initialise thread-locals for more than 8 rounds are not generated"],
            min_nontrivial: 100,
        },
        "C20" => Def {
            memcheck: mc,
            parts: vec![("fut", fam_fut::total(tier))],
            clauses: vec!["lost_wakeup", "missed_deadlock", "block_on_no_return", "spurious_poll", "wrong_waker", "unexpected_panic"],
            rule: "one scripted future (flag in a loom AtomicBool; waker published through future::AtomicWaker or through a slot in a loom Mutex; with or without the re-check after registering) driven by future::block_on, woken by 1-2 threads running every script of <= 3 steps over set-flag / wake / wake_by_ref / drop-the-waker / yield (enumerated) + random scripts; an explicit-state model of `loop { poll; wait }` decides whether a deadlock is owed (reachable without the spurious return) or allowed; block_on must return the output in every iteration otherwise; polls per iteration <= wakes + 2; three probes register 1-3 wakers with unique ids in an AtomicWaker while another thread calls wake(). non-trivial = at least one waking thread and an iteration observed (a deadlock owed by the model is reported in the first iteration)",
            trusted: vec!["harness/src/fam_fut.rs reference model", "counters in std atomics"],
            assumptions: vec!["everything the workload needs for progress goes through loom primitives (a waker handed over through a std mutex is, correctly, a lost wake-up in loom's model)"],
            min_nontrivial: 50,
        },
        "C18" => Def {
            memcheck: mc,
            parts: vec![("spin", fam_spin::total(tier)), ("rmwspin", fam_spin::rmw_total())],
            clauses: vec!["spin_no_progress", "spin_missing_exit", "spin_cut_off", "spin_forbidden_exit", "unexpected_panic"],
            rule: "programs with await loops (`loop { v = x.load(o); if v != 0 { break } yield_now() }`, a quarter with hint::spin_loop) at any position of any thread, never two threads spinning at once: flag + data, awaited location written twice, two writers, two waiters in a chain, in every store/load ordering pair (enumerated) + random litmus programs with one inserted await and (7 of 8) an inserted store that establishes it; three never-true loops. The reference treats an await as a blocking read of any allowed non-zero value (RC11 strong for `must explore`, weak for `must not produce`); max_branches lowered to 300. non-trivial = the reference allows >= 2 outcomes, or the condition can stay false",
            trusted: vec!["harness/src/rc11.rs (await = blocking read)", "harness/src/lit.rs interpreter"],
            assumptions: vec!["a program whose condition can stay false in some interleaving must end in the branch-limit (or deadlock) panic; completeness is then not demanded"],
            min_nontrivial: 30,
        },
        "C16" => Def {
            memcheck: mc,
            // + the thread-local / lazy-static programs for their per-iteration monitors (what an iteration leaves is its own)
            parts: vec![("iso", fam_iso::total(tier)), ("statics", fam_statics::total(tier).min(if tier == 0 { 1200 } else { 6000 }))],
            clauses: vec!["differs_after_failed_models", "differs_under_concurrent_models", "iteration_state_leaks", "unexpected_panic", "panic_state_leaked"],
            rule: "each job takes a random litmus program and a random blocking program plus an identity model (ThreadIds of main and two children, an atomic and a channel that must start at their initial state in every iteration); their complete records (per-iteration outcome sequence, execution orders, decision paths, iteration counts, identity lines) are computed in a fresh process, again in the worker process after 2-6 models that failed (lock-order deadlock incl. loom::sync::Arc-shared, data race, Arc + allocation leak, branch limit inside a spin loop, user panic while others are blocked, panic in a payload destructor, leaked messages) and after all earlier jobs of the shard, and again while 3-6 (thorough 3-15) other OS threads run other models with injected yields/sleeps; all three must be identical. non-trivial = one of the two programs runs >= 2 iterations",
            trusted: vec!["record digests (FNV over Debug output)", "iteration hook", "interpreters"],
            assumptions: vec!["the TSan and memcheck lanes of the thorough tier are separate commands (see DESIGN §5-C16)"],
            min_nontrivial: 20,
        },
        "C13" => Def {
            memcheck: mc,
            parts: vec![("path", fam_path::total(prop, tier))],
            clauses: vec!["nondeterministic", "checkpoint_resume", "checkpoint_failure_replay", "unexpected_panic", "panic_state_leaked"],
            rule: "programs with 3..=120 (thorough 400) iterations; per program: two runs in one process and two fresh processes compared (outcomes, execution orders, decision paths); every stop point k in 1..N x intervals 1,2,3,7 and a random one through a real checkpoint file; process aborts at the start / in the middle of iteration k resumed in a fresh process; three failing iterations (first, middle, last) reloaded from their checkpoint; non-trivial = program in the iteration range",
            trusted: path_trusted,
            assumptions: vec!["a crash while loom writes the checkpoint file is not injected"],
            min_nontrivial: 10,
        },
        _ => return None,
    })
}

/// Orchestrator-side description of a program whose worker died (timeouts stay inconclusive).
fn died(family: &str, prop: &str, tier: u8, seed: u64, idx: usize, status: &str) -> Option<Rec> {
    if status == "timeout" {
        return None;
    }
    match family {
        "sync" => Some(fam_sync::describe_died(prop, tier, seed, idx, status)),
        "arc" => Some(arcs::describe_died(prop, tier, seed, idx, status)),
        _ => None,
    }
}

pub fn check(prop: &str, tier: u8, seed: u64) -> i32 {
    let t0 = Instant::now();
    let d = match def(prop, tier) {
        Some(d) => d,
        None => {
            eprintln!("lv: property {} has no check", prop);
            return 2;
        }
    };
    let mut recs: Vec<Rec> = Vec::new();
    for (fam, total) in &d.parts {
        // quick-tier jobs take seconds (the slowest families tens of seconds under load)
        let mut r = run_family(fam, prop, tier, seed, *total, if tier == 0 { WD / 3 } else { WD }, died);
        let base = recs.len();
        for x in r.iter_mut() {
            x.idx += base;
        }
        recs.extend(r);
    }
    let mut extra = serde_json::Map::new();
    // per-record extras that are worth aggregating
    let mut stop_pairs = 0u64;
    for r in &recs {
        stop_pairs += r.extra.get("stop_resume_pairs").and_then(|v| v.as_u64()).unwrap_or(0);
    }
    if stop_pairs > 0 {
        extra.insert("stop_resume_pairs".into(), json!(stop_pairs));
    }
    // sanitizer lane
    let mut sanitizer = Value::Null;
    let want = if tier == 0 { d.memcheck.0 } else { d.memcheck.1 };
    if want > 0 {
        let mut lanes = Vec::new();
        for (fam, total) in &d.parts {
            if let Some(rep) = run_memcheck(fam, prop, tier, seed, *total, want) {
                if rep.errors > 0 {
                    let mut r = Rec::new(recs.len());
                    r.prog = format!("memcheck lane over {} programs of family {}", rep.programs, fam);
                    r.hash = fnv(&r.prog);
                    r.v("memcheck_error", "", format!("{} valgrind memcheck reports; first: {} ; logs in {}", rep.errors, rep.first_error, rep.log_dir));
                    recs.push(r);
                }
                lanes.push(json!({"tool": "valgrind memcheck (leak check off)", "family": fam, "programs_requested": rep.programs, "programs_completed_under_valgrind": rep.completed, "valgrind_processes": rep.processes, "processes_died": rep.died, "processes_stopped_at_the_lane_budget": rep.stopped_at_budget, "error_reports": rep.errors, "wall_s": rep.wall_s, "violations_seen_in_sample": rep.violations_in_sample}));
            }
        }
        sanitizer = Value::Array(lanes);
    }
    // ThreadSanitizer lane (C16, thorough): the only real OS-thread concurrency in loom is several models running at once
    if prop == "C16" {
        if let Ok(bin) = std::env::var("LV_TSAN_BIN") {
            if std::path::Path::new(&bin).exists() {
                let dir = verif_root().join("work").join("tsan-C16");
                let _ = std::fs::remove_dir_all(&dir);
                let _ = std::fs::create_dir_all(&dir);
                let t1 = Instant::now();
                let n = if tier == 0 { 6 } else { 48 };
                let out = std::process::Command::new(&bin)
                    .args(["tsan-lane", &seed.to_string(), &n.to_string()])
                    .env("TSAN_OPTIONS", format!("halt_on_error=0 exitcode=0 report_signal_unsafe=0 log_path={}", dir.join("report").display()))
                    .stderr(std::process::Stdio::null())
                    .output();
                let mut reports = 0;
                let mut first = String::new();
                if let Ok(rd) = std::fs::read_dir(&dir) {
                    for e in rd.flatten() {
                        if let Ok(s) = std::fs::read_to_string(e.path()) {
                            reports += s.matches("WARNING: ThreadSanitizer").count();
                            if first.is_empty() {
                                first = s.lines().take(25).collect::<Vec<_>>().join("\\n");
                            }
                        }
                    }
                }
                let stdout = out.as_ref().map(|o| String::from_utf8_lossy(&o.stdout).to_string()).unwrap_or_default();
                let done = stdout.lines().find(|l| l.starts_with("TSAN-LANE-DONE")).unwrap_or("").to_string();
                let lane_viol = stdout.lines().filter(|l| l.starts_with("TSAN-LANE-VIOLATION")).count();
                if reports > 0 || lane_viol > 0 || done.is_empty() {
                    let mut r = Rec::new(recs.len());
                    r.prog = "ThreadSanitizer lane: isolation workload with models on several OS threads".into();
                    r.hash = fnv(&r.prog);
                    if done.is_empty() {
                        r.status = "inconclusive:tsan-lane-did-not-finish".into();
                    } else {
                        r.v("tsan_report", "", format!("{} ThreadSanitizer reports, {} record mismatches; first report: {}", reports, lane_viol, first));
                    }
                    recs.push(r);
                }
                let mut lanes = sanitizer.as_array().cloned().unwrap_or_default();
                lanes.push(json!({"tool": "ThreadSanitizer (nightly, -Zbuild-std)", "jobs": n, "summary": done, "reports": reports, "wall_s": t1.elapsed().as_secs_f64()}));
                sanitizer = Value::Array(lanes);
            }
        }
    }
    let mut clauses: Vec<&str> = d.clauses.clone();
    clauses.push("memcheck_error");
    clauses.push("tsan_report");
    finish(
        Check {
            prop,
            tier,
            seed,
            clauses: &clauses,
            rule: d.rule.to_string(),
            trusted_base: d.trusted.iter().map(|s| s.to_string()).collect(),
            assumptions: d.assumptions.iter().map(|s| s.to_string()).collect(),
            extra: Value::Object(extra),
            samples: samples_from(&recs, 5),
            exhaustive: false,
            min_nontrivial: d.min_nontrivial,
            sanitizer,
        },
        &recs,
        t0,
    )
}

pub fn replay(path: &str) -> i32 {
    let s = match std::fs::read_to_string(path) {
        Ok(s) => s,
        Err(e) => {
            eprintln!("cannot read {}: {}", path, e);
            return 2;
        }
    };
    let v: Value = serde_json::from_str(&s).expect("replay file is not JSON");
    let prop = v["property"].as_str().unwrap_or("");
    let family = v["family"].as_str().unwrap_or("lit");
    let mut rec = Rec::new(0);
    match family {
        "lit" => {
            let p: lit::Prog = serde_json::from_value(v["program_json"].clone()).expect("program_json");
            fam_lit::judge(prop, &p, &mut rec, true, 1);
        }
        "iso" | "diff" | "statics_idx" | "arcgate" | "rmwspin" => {
            // these families are replayed by job index: the job is a deterministic function of (tier, seed, idx)
            let tier = if v["tier"].as_str() == Some("thorough") { 1 } else { 0 };
            rec = work(family, prop, tier, v["seed"].as_u64().unwrap_or(0), v["idx"].as_u64().unwrap_or(0) as usize);
        }
        "sync" => {
            let p: sync::SProg = serde_json::from_value(v["program_json"].clone()).expect("program_json");
            fam_sync::judge(prop, &p, &mut rec, 1, true);
        }
        "statics" => {
            let p: fam_statics::StProg = serde_json::from_value(v["program_json"].clone()).expect("program_json");
            fam_statics::judge(&p, &mut rec, 1);
        }
        "fut" => {
            let p: fam_fut::FProg = serde_json::from_value(v["program_json"].clone()).expect("program_json");
            fam_fut::judge(&p, &mut rec, 1);
        }
        "arc" => {
            let p: arcs::AProg = serde_json::from_value(v["program_json"].clone()).expect("program_json");
            arcs::judge(&p, &mut rec, 1, true);
        }
        "spin" => {
            let p: lit::Prog = serde_json::from_value(v["program_json"].clone()).expect("program_json");
            fam_spin::judge(&p, &mut rec, 1);
        }
        "race" => {
            let p: lit::Prog = serde_json::from_value(v["program_json"].clone()).expect("program_json");
            fam_race::judge(&p, &mut rec, 1, true);
        }
        "path" => {
            let p: lit::Prog = serde_json::from_value(v["program_json"].clone()).expect("program_json");
            fam_path::judge(prop, &p, &mut rec, 1, v["seed"].as_u64().unwrap_or(0), v["idx"].as_u64().unwrap_or(0) as usize);
        }
        _ => {
            eprintln!("unknown family in replay file");
            return 2;
        }
    }
    println!("program: {}", rec.prog);
    println!("status: {}  iterations: {}  outcomes: {}", rec.status, rec.iters, rec.outcomes);
    println!("{}", serde_json::to_string_pretty(&rec.extra).unwrap());
    for v in &rec.viol {
        println!("VIOLATION property={} replay={}  [{}] {}", prop, path, v.clause, v.detail);
    }
    if rec.viol.is_empty() {
        0
    } else {
        1
    }
}

/// Delta-debugging shrinker for litmus witnesses: drops ops while the same clause still fails.
pub fn shrink(path: &str) -> i32 {
    let s = std::fs::read_to_string(path).expect("read");
    let v: Value = serde_json::from_str(&s).expect("json");
    let prop = v["property"].as_str().unwrap_or("").to_string();
    let clause = v["clause"].as_str().unwrap_or("").to_string();
    let mut p: lit::Prog = serde_json::from_value(v["program_json"].clone()).expect("program_json");
    let fails = |p: &lit::Prog| -> bool {
        let mut rec = Rec::new(0);
        fam_lit::judge(&prop, p, &mut rec, false, 1);
        rec.viol.iter().any(|x| x.clause == clause)
    };
    if !fails(&p) {
        println!("does not fail any more");
        return 0;
    }
    loop {
        let mut progressed = false;
        if !p.pre.is_empty() {
            let mut q = p.clone();
            q.pre.clear();
            if fails(&q) {
                p = q;
                progressed = true;
            }
        }
        'outer: for t in 0..p.threads.len() {
            for i in 0..p.threads[t].len() {
                let mut q = p.clone();
                q.threads[t].remove(i);
                if fails(&q) {
                    p = q;
                    progressed = true;
                    break 'outer;
                }
            }
        }
        // drop empty trailing threads
        while p.threads.len() > 1 && p.threads.last().unwrap().is_empty() {
            let mut q = p.clone();
            q.threads.pop();
            if fails(&q) {
                p = q;
            } else {
                break;
            }
        }
        // weaken orderings is NOT tried (changes the defect); but relax SC->AcqRel-class is informative: skip
        if !progressed {
            break;
        }
    }
    let mut rec = Rec::new(0);
    fam_lit::judge(&prop, &p, &mut rec, true, 1);
    println!("minimal: {}", p.s());
    println!("{}", serde_json::to_string(&serde_json::to_value(&p).unwrap()).unwrap());
    println!("{}", serde_json::to_string_pretty(&rec.extra).unwrap());
    for v in &rec.viol {
        println!("[{}] {}", v.clause, v.detail);
    }
    1
}

/// Validates the oracles against published verdicts (DESIGN §9).
pub fn selftest() -> i32 {
    use lit::{Op, Ord_::*, Prog};
    use rc11::*;
    let ld = |loc, ord| Op::Load { loc, ord };
    let st = |loc, val, ord| Op::Store { loc, val, ord };
    let f = |ord| Op::Fence { ord };
    let pr = |nlocs, threads| Prog { nlocs, pre: vec![], threads };
    let mut cases: Vec<(&str, Prog, Vec<u64>, bool, bool)> = Vec::new();
    cases.push(("MP rlx", pr(2, vec![vec![], vec![st(0, 1, Rlx), st(1, 1, Rlx)], vec![ld(1, Rlx), ld(0, Rlx)]]), vec![1, 0, 1, 1], true, true));
    cases.push(("MP rel/acq", pr(2, vec![vec![], vec![st(0, 1, Rlx), st(1, 1, Rel)], vec![ld(1, Acq), ld(0, Rlx)]]), vec![1, 0, 1, 1], false, false));
    cases.push(("MP fences", pr(2, vec![vec![], vec![st(0, 1, Rlx), f(Rel), st(1, 1, Rlx)], vec![ld(1, Rlx), f(Acq), ld(0, Rlx)]]), vec![1, 0, 1, 1], false, false));
    cases.push(("MP rel fence only", pr(2, vec![vec![], vec![st(0, 1, Rlx), f(Rel), st(1, 1, Rlx)], vec![ld(1, Rlx), ld(0, Rlx)]]), vec![1, 0, 1, 1], true, true));
    cases.push(("SB rel/acq", pr(2, vec![vec![], vec![st(0, 1, Rel), ld(1, Acq)], vec![st(1, 1, Rel), ld(0, Acq)]]), vec![0, 0, 1, 1], true, true));
    cases.push(("SB sc accesses", pr(2, vec![vec![], vec![st(0, 1, Sc), ld(1, Sc)], vec![st(1, 1, Sc), ld(0, Sc)]]), vec![0, 0, 1, 1], false, true));
    cases.push(("SB sc fences", pr(2, vec![vec![], vec![st(0, 1, Rlx), f(Sc), ld(1, Rlx)], vec![st(1, 1, Rlx), f(Sc), ld(0, Rlx)]]), vec![0, 0, 1, 1], false, false));
    cases.push(("SB acqrel fences", pr(2, vec![vec![], vec![st(0, 1, Rlx), f(AcqRel), ld(1, Rlx)], vec![st(1, 1, Rlx), f(AcqRel), ld(0, Rlx)]]), vec![0, 0, 1, 1], true, true));
    cases.push(("LB rlx", pr(2, vec![vec![], vec![ld(0, Rlx), st(1, 1, Rlx)], vec![ld(1, Rlx), st(0, 1, Rlx)]]), vec![1, 1, 1, 1], false, false));
    cases.push(("CoRR", pr(1, vec![vec![], vec![st(0, 1, Rlx)], vec![ld(0, Rlx), ld(0, Rlx)]]), vec![1, 0, 1], false, false));
    cases.push(("CoRR ok", pr(1, vec![vec![], vec![st(0, 1, Rlx)], vec![ld(0, Rlx), ld(0, Rlx)]]), vec![0, 1, 1], true, true));
    cases.push(("2+2W rlx", pr(2, vec![vec![], vec![st(0, 1, Rlx), st(1, 2, Rlx)], vec![st(1, 1, Rlx), st(0, 2, Rlx)]]), vec![1, 1], true, true));
    cases.push(("2+2W sc", pr(2, vec![vec![], vec![st(0, 1, Sc), st(1, 2, Sc)], vec![st(1, 1, Sc), st(0, 2, Sc)]]), vec![1, 1], false, true));
    cases.push(("IRIW acq", pr(2, vec![vec![st(0, 1, Rel)], vec![st(1, 1, Rel)], vec![ld(0, Acq), ld(1, Acq)], vec![ld(1, Acq), ld(0, Acq)]]), vec![1, 0, 1, 0, 1, 1], true, true));
    cases.push(("IRIW sc", pr(2, vec![vec![st(0, 1, Sc)], vec![st(1, 1, Sc)], vec![ld(0, Sc), ld(1, Sc)], vec![ld(1, Sc), ld(0, Sc)]]), vec![1, 0, 1, 0, 1, 1], false, true));
    cases.push(("IRIW sc fences", pr(2, vec![vec![st(0, 1, Rlx)], vec![st(1, 1, Rlx)], vec![ld(0, Rlx), f(Sc), ld(1, Rlx)], vec![ld(1, Rlx), f(Sc), ld(0, Rlx)]]), vec![1, 0, 1, 0, 1, 1], false, false));
    cases.push(("WRC rlx-read (CoRR through hb)", pr(2, vec![vec![], vec![st(0, 1, Rlx)], vec![ld(0, Rlx), st(1, 1, Rel)], vec![ld(1, Acq), ld(0, Rlx)]]), vec![1, 1, 0, 1, 1], false, false));
    cases.push(("WRC acq-read", pr(2, vec![vec![], vec![st(0, 1, Rel)], vec![ld(0, Acq), st(1, 1, Rel)], vec![ld(1, Acq), ld(0, Rlx)]]), vec![1, 1, 0, 1, 1], false, false));
    cases.push(("ISA2", pr(3, vec![vec![], vec![st(0, 1, Rlx), st(1, 1, Rel)], vec![ld(1, Acq), st(2, 1, Rel)], vec![ld(2, Acq), ld(0, Rlx)]]), vec![1, 1, 0, 1, 1, 1], false, false));
    cases.push(("relseq rmw", pr(2, vec![vec![], vec![st(1, 1, Rlx), st(0, 1, Rel)], vec![Op::Swap { loc: 0, val: 2, ord: Rlx }], vec![ld(0, Acq), ld(1, Rlx)]]), vec![1, 2, 0, 2, 1], false, false));
    cases.push(("relseq same-thread", pr(2, vec![vec![], vec![st(1, 1, Rlx), st(0, 1, Rel), st(0, 2, Rlx)], vec![ld(0, Acq), ld(1, Rlx)]]), vec![2, 0, 2, 1], false, true));
    cases.push(("relseq broken by other store", pr(2, vec![vec![], vec![st(1, 1, Rlx), st(0, 1, Rel)], vec![st(0, 2, Rlx)], vec![ld(0, Acq), ld(1, Rlx)]]), vec![2, 0, 2, 1], true, true));
    cases.push(("rmw atomicity", pr(1, vec![vec![Op::Swap { loc: 0, val: 2, ord: Rlx }], vec![st(0, 1, Rlx)]]), vec![0, 2], false, false));
    cases.push(("rmw ok", pr(1, vec![vec![Op::Swap { loc: 0, val: 2, ord: Rlx }], vec![st(0, 1, Rlx)]]), vec![0, 1], true, true));
    cases.push(("2 fadd lost update", pr(1, vec![vec![Op::FetchAdd { loc: 0, add: 64, ord: Rlx }], vec![Op::FetchAdd { loc: 0, add: 128, ord: Rlx }]]), vec![0, 0, 128], false, false));
    cases.push(("fence-fence sync", pr(2, vec![vec![], vec![st(0, 1, Rlx), f(Rel), st(1, 1, Rlx)], vec![ld(1, Rlx), f(Acq), ld(0, Rlx)]]), vec![1, 1, 1, 1], true, true));
    cases.push(("C02 text: acquire fence through another thread's relaxed read", pr(3, vec![vec![ld(2, Acq), f(Acq), ld(1, Rlx)], vec![st(1, 1, Rlx), st(0, 2, Rel)], vec![ld(0, Rlx), st(2, 3, Rel)]]), vec![3, 0, 2, 2, 1, 3], true, true));
    cases.push(("spawn edge (pre)", Prog { nlocs: 1, pre: vec![st(0, 9, Rlx)], threads: vec![vec![], vec![ld(0, Rlx)]] }, vec![0, 9], false, false));
    let mut bad = 0;
    for (name, p, o, es, ew) in &cases {
        let mut stt = Stats { budget: 10_000_000, ..Default::default() };
        let (s, w) = allowed_both(p, &mut stt).expect("budget");
        let (gs, gw) = (s.contains(o), w.contains(o));
        let ok = gs == *es && gw == *ew && s.is_subset(&w);
        if !ok {
            bad += 1;
        }
        println!("{:62} outcome {:?}: strong={} (exp {}) weak={} (exp {}) {}   |strong|={} |weak|={}", name, o, gs, es, gw, ew, if ok { "ok" } else { "MISMATCH" }, s.len(), w.len());
    }
    // strong ⊆ weak ⊇ SC on random programs; SC ⊆ strong
    let mut rng = Rng::new(7, 7);
    let a = lit::Alpha { nlocs: 2, rmw: true, cas: true, fadd: true, fences: true, sc_only: false };
    let mut n = 0;
    for _ in 0..1500 {
        let nt = 2 + rng.below(2);
        let p = lit::random_prog(&mut rng, nt, 2, 2, 6, a);
        let mut stt = Stats { budget: 2_000_000, ..Default::default() };
        if let Ok((s, w)) = allowed_both(&p, &mut stt) {
            let (sc, _) = outcomes_sc(&p);
            n += 1;
            if !s.is_subset(&w) {
                bad += 1;
                println!("strong ⊄ weak: {}", p.s());
            }
            if !sc.is_subset(&s) {
                bad += 1;
                println!("SC ⊄ strong: {}", p.s());
            }
        }
    }
    println!("subset sanity on {} random programs; mismatches: {}", n, bad);
    if bad == 0 {
        0
    } else {
        1
    }
}

/// debugging aid: `lv ctrl <replay.json> <ctrl>` prints the outcomes of a litmus program under a control placement
pub fn ctrl_debug(path: &str, ctrl: u8) -> i32 {
    let v: Value = serde_json::from_str(&std::fs::read_to_string(path).unwrap()).unwrap();
    let p: lit::Prog = serde_json::from_value(v["program_json"].clone()).unwrap();
    let r = lit::run(&p, &lit::Cfg { iter_cap: 100_000, keep_paths: true, keep_seq: true, ctrl, ..Default::default() });
    println!("{}", p.s());
    println!("iterations {} panic {:?}", r.iters, r.panic);
    for (i, o) in r.seq.iter().enumerate() {
        println!("  {:?}   order {:?}", o, r.order_seq[i]);
    }
    println!("must (main atomic): {:?}", rc11::outcomes_sc_main_atomic(&p));
    0
}
