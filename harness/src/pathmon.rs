//! M-PATH: monitor over the decision paths handed out by the iteration hook (C14, C15, C19).
use loom::verif::{Branch, ThreadStatus};
use std::collections::HashSet;

fn dec(b: &Branch) -> (u8, u8) {
    match b {
        Branch::Schedule { threads, .. } => (0, threads.iter().position(|t| *t == ThreadStatus::Active).map(|i| i as u8).unwrap_or(255)),
        Branch::Load { pos, .. } => (1, *pos),
        Branch::Spurious { spur, .. } => (2, *spur as u8),
    }
}

fn h(s: &[(u8, u8)]) -> u64 {
    let mut x: u64 = 0xcbf29ce484222325;
    for (a, b) in s {
        x ^= *a as u64 + 1;
        x = x.wrapping_mul(0x100000001b3);
        x ^= *b as u64 + 7;
        x = x.wrapping_mul(0x100000001b3);
    }
    x ^ (s.len() as u64).wrapping_mul(0x9E3779B97F4A7C15)
}

#[derive(Default, Debug)]
pub struct PathReport {
    pub violations: Vec<(String, String)>, // (clause, detail)
    pub entries: usize,
    pub max_preemptions: usize,
    pub max_len: usize,
    pub kinds: [usize; 3],
    pub nonexploring_entries: usize,
}

/// Independent preemption count of one iteration: consecutive scheduling decisions whose chosen
/// thread changes although the previously chosen thread could have continued.
pub fn preemptions(path: &[Branch]) -> usize {
    let mut prev: Option<usize> = None;
    let mut pre = 0;
    for b in path {
        if let Branch::Schedule { threads, .. } = b {
            let act = threads.iter().position(|t| *t == ThreadStatus::Active);
            if let (Some(pv), Some(a)) = (prev, act) {
                if pv != a && !matches!(threads[pv], ThreadStatus::Disabled | ThreadStatus::Yield) {
                    pre += 1;
                }
            }
            prev = act;
        }
    }
    pre
}

/// Checks the sequence of decision paths of one model run.
pub fn check(iters: &[Vec<Branch>], bound: Option<usize>, complete: bool) -> PathReport {
    let mut r = PathReport::default();
    let seqs: Vec<Vec<(u8, u8)>> = iters.iter().map(|it| it.iter().map(dec).collect()).collect();
    let mut seen: HashSet<u64> = HashSet::new();
    let mut closed: HashSet<u64> = HashSet::new();
    let mut v = |c: &str, d: String| {
        if r.violations.len() < 8 {
            r.violations.push((c.to_string(), d));
        }
    };
    let mut dup_load: Option<(usize, Vec<u8>)> = None;
    for (i, s) in seqs.iter().enumerate() {
        r.entries += s.len();
        r.max_len = r.max_len.max(s.len());
        for b in &iters[i] {
            match b {
                Branch::Schedule { exploring, .. } => {
                    r.kinds[0] += 1;
                    if !*exploring {
                        r.nonexploring_entries += 1;
                    }
                }
                Branch::Load { exploring, values, .. } => {
                    r.kinds[1] += 1;
                    if !*exploring {
                        r.nonexploring_entries += 1;
                    }
                    // the alternatives of a decision are different: a store offered twice gives two iterations with
                    // different decision sequences and the same execution
                    let mut vs = values.clone();
                    vs.sort_unstable();
                    vs.dedup();
                    if vs.len() != values.len() {
                        dup_load = Some((i, values.clone()));
                    }
                }
                Branch::Spurious { exploring, .. } => {
                    r.kinds[2] += 1;
                    if !*exploring {
                        r.nonexploring_entries += 1;
                    }
                }
            }
        }
        if let Some((it, vals)) = dup_load.take() {
            v("path_repeat", format!("iteration {}: a load decision offers the same store more than once (candidate slots {:?}): two alternatives of one decision are the same execution", it, vals));
        }
        if !seen.insert(h(s)) {
            v("path_repeat", format!("iteration {} repeats the decision sequence of an earlier iteration", i));
        }
        for p in 1..=s.len() {
            if closed.contains(&h(&s[..p])) {
                v("path_not_dfs", format!("iteration {} re-enters a sub-tree it had left (prefix of length {})", i, p));
                break;
            }
        }
        if i + 1 < seqs.len() {
            let n = &seqs[i + 1];
            let p = (0..s.len().min(n.len())).find(|&k| s[k] != n[k]);
            match p {
                None => v("path_prefix", format!("iterations {} and {}: one decision sequence is a prefix of the other", i, i + 1)),
                Some(p) => {
                    for q in p + 1..=s.len() {
                        closed.insert(h(&s[..q]));
                    }
                    if s[p].0 != n[p].0 {
                        v("path_kind", format!("iteration {}: branch kind changed at depth {}", i + 1, p));
                    }
                    match (&iters[i][p], &iters[i + 1][p]) {
                        (Branch::Load { pos: a, values, exploring }, Branch::Load { pos: b, .. }) => {
                            if *b != *a + 1 || (*b as usize) >= values.len() {
                                v("path_order", format!("iteration {}: load alternative {} -> {} of {}", i + 1, a, b, values.len()));
                            }
                            if !*exploring {
                                v("ctrl_explored_in_region", format!("iteration {}: a load alternative was explored at a branch taken with exploration disabled (depth {})", i + 1, p));
                            }
                        }
                        (Branch::Spurious { spur: a, exploring }, Branch::Spurious { spur: b, .. }) => {
                            if *a || !*b {
                                v("path_order", format!("iteration {}: spurious {} -> {}", i + 1, a, b));
                            }
                            if !*exploring {
                                v("ctrl_explored_in_region", format!("iteration {}: a spurious alternative was explored with exploration disabled (depth {})", i + 1, p));
                            }
                        }
                        (Branch::Schedule { threads: ta, exploring, .. }, Branch::Schedule { threads: tb, .. }) => {
                            let next = tb.iter().position(|t| *t == ThreadStatus::Active);
                            let first_pending = ta.iter().position(|t| *t == ThreadStatus::Pending);
                            if next != first_pending {
                                v("path_order", format!("iteration {}: schedule alternative {:?} but the first pending thread was {:?} ({:?})", i + 1, next, first_pending, ta));
                            }
                            if !*exploring {
                                v("ctrl_explored_in_region", format!("iteration {}: a schedule alternative was explored at a branch taken with exploration disabled (depth {})", i + 1, p));
                            }
                            // a thread once visited at this decision is never activated again
                            if let Some(nx) = next {
                                if ta[nx] == ThreadStatus::Visited || ta[nx] == ThreadStatus::Active {
                                    v("path_repeat", format!("iteration {}: thread {} re-activated at depth {}", i + 1, nx, p));
                                }
                            }
                        }
                        _ => {}
                    }
                    for q in p + 1..s.len() {
                        match &iters[i][q] {
                            Branch::Schedule { threads, exploring, .. } => {
                                if *exploring && threads.iter().any(|t| *t == ThreadStatus::Pending) {
                                    v("path_not_dfs", format!("iteration {}: pending alternative left behind at depth {} (backtracked to {})", i, q, p));
                                }
                            }
                            Branch::Load { pos, values, exploring } => {
                                if *exploring && (*pos as usize) + 1 < values.len() {
                                    v("path_not_dfs", format!("iteration {}: load alternative left behind at depth {}", i, q));
                                }
                            }
                            Branch::Spurious { spur, exploring } => {
                                if *exploring && !*spur {
                                    v("path_not_dfs", format!("iteration {}: spurious alternative left behind at depth {}", i, q));
                                }
                            }
                        }
                    }
                }
            }
        } else if complete {
            // last iteration: nothing may be left unexplored
            for (q, b) in iters[i].iter().enumerate() {
                let left = match b {
                    Branch::Schedule { threads, exploring, .. } => *exploring && threads.iter().any(|t| *t == ThreadStatus::Pending),
                    Branch::Load { pos, values, exploring } => *exploring && (*pos as usize) + 1 < values.len(),
                    Branch::Spurious { spur, exploring } => *exploring && !*spur,
                };
                if left {
                    v("path_incomplete", format!("exploration ended with an unexplored alternative at depth {} of the last iteration", q));
                }
            }
        }
        let pre = preemptions(&iters[i]);
        r.max_preemptions = r.max_preemptions.max(pre);
        if let Some(bd) = bound {
            if pre > bd {
                v("preemption_bound_exceeded", format!("iteration {}: {} preemptions > bound {}", i, pre, bd));
            }
        }
    }
    r
}
