//! Exploration-engine properties decided on litmus programs: C13 (determinism, checkpoint/resume),
//! C14 (termination, no repetition, depth-first order), C15 (preemption bound), C19 (controls, limits).
use crate::common::*;
use crate::lit::*;
use crate::orch::*;
use crate::pathmon;
use serde_json::{json, Value};
use std::collections::BTreeSet;

fn prog_for(prop: &str, tier: u8, seed: u64, idx: usize) -> Prog {
    let cl = classics();
    // a slice of the classic shapes first (not seed dependent), then random programs
    let ncl = match prop {
        "C14" => cl.len(),
        "C15" => 60,
        "C19" => 40,
        _ => 12,
    };
    if prop == "C13" {
        // SeqCst fences in two threads followed by relaxed loads: the per-execution SeqCst-fence clock decides which
        // stores the loads may still read, so anything of it that survives an iteration shows as a resumed run (which
        // starts from pristine state) diverging from the uninterrupted one
        let named = [(4usize, "SB+f[sc,sc]"), (6, "f;RR|WW;f[sc,sc]"), (7, "MP+f[sc,sc]"), (9, "W;f;RR|WW;f[sc,sc]")];
        if let Some((_, n)) = named.iter().find(|(i, _)| *i == idx) {
            if let Some((_, p)) = cl.iter().find(|(name, _)| name == n) {
                return p.clone();
            }
        }
    }
    if idx < ncl {
        return cl[(idx * 7) % cl.len()].1.clone();
    }
    if prop == "C14" && idx % 10 == 4 {
        // one location receives more stores than loom's store history holds: the candidate lists of the loads are built
        // from a ring that has wrapped
        return crate::fam_lit::long_history_prog(seed ^ 0xC14, idx);
    }
    let mut rng = Rng::new(seed, idx as u64 ^ fnv(prop));
    let a = Alpha { nlocs: 2, rmw: true, cas: true, fadd: true, fences: true, sc_only: false };
    let t = 2 + rng.below(2 + (tier as usize));
    let k = match t {
        2 => 2 + rng.below(2),
        3 => 1 + rng.below(2),
        _ => 1,
    };
    // C15 runs every program nine times: keep its 3-thread programs to <= 5 operations
    let max_mem = if prop == "C15" && t >= 3 { 5 } else { 6 };
    let l = 1 + rng.below(2);
    let a = if rng.chance(1, 3) { Alpha { sc_only: true, ..a } } else { a };
    let mut p = random_prog(&mut rng, t, k, l, max_mem, a);
    if prop == "C19" && idx % 3 == 0 {
        // main = one access followed by 1-2 stores: the shape placement 7 (region after an explorable decision) decides
        let first = if p.threads[0].first().map(|o| o.is_mem()).unwrap_or(false) { p.threads[0][0] } else { Op::Load { loc: 0, ord: Ord_::Rlx } };
        let mut ops = vec![first];
        for i in 0..1 + rng.below(2) {
            ops.push(Op::Store { loc: rng.below(l) as u8, val: 50 + i as u64, ord: *rng.pick(&STORE_ORDS) });
        }
        p.threads[0] = ops;
    }
    p
}

pub fn total(prop: &str, tier: u8) -> usize {
    match (prop, tier) {
        ("C14", 0) => 2500,
        ("C14", _) => 30_000,
        ("C15", 0) => 500,
        ("C15", _) => 4_000,
        ("C19", 0) => 300,
        ("C19", _) => 2_500,
        ("C13", 0) => 72,
        ("C13", _) => 360,
        _ => 0,
    }
}

fn base_cfg(tier: u8) -> Cfg {
    Cfg { iter_cap: if tier == 0 { 40_000 } else { 100_000 }, keep_paths: true, keep_seq: true, ..Default::default() }
}

fn add_path_viol(rec: &mut Rec, rep: &pathmon::PathReport, ctx: &str) {
    for (c, d) in &rep.violations {
        rec.v(c, "", format!("{}{}", ctx, d));
    }
}

/// programs over the blocking primitives (Notify waits give Spurious branches, locks give disabled threads)
fn sync_prog_for(seed: u64, idx: usize) -> crate::sync::SProg {
    crate::fam_sync::prog_at(if idx % 2 == 0 { "C08" } else { "C01" }, 0, seed ^ 0x5A, 30_000_000 + idx)
}

fn c14_sync(rec: &mut Rec, tier: u8, seed: u64, idx: usize) {
    let p = sync_prog_for(seed, idx);
    rec.hash = p.hash();
    rec.prog = p.s();
    rec.extra = json!({"family": "path"});
    let r = crate::sync::run_loom(&p, &crate::sync::SCfg { iter_cap: if tier == 0 { 20_000 } else { 100_000 }, max_branches: 5000, keep_paths: true, ..Default::default() });
    rec.runs = 1;
    rec.iters = r.iters as u64;
    rec.events = r.events as u64;
    rec.entries = r.paths.iter().map(|x| x.len() as u64).sum();
    if r.panic.is_some() {
        // a failing model stops in the middle of its exploration: nothing to say about completeness of the path tree
        let rep = pathmon::check(&r.paths, None, false);
        add_path_viol(rec, &rep, "(failing model) ");
        return;
    }
    if r.hook_calls != r.iters || r.paths.len() != r.iters {
        rec.v("path_count", "", format!("{} iterations but {} decision paths", r.iters, r.paths.len()));
    }
    let rep = pathmon::check(&r.paths, None, true);
    add_path_viol(rec, &rep, "");
    rec.nontrivial = r.iters >= 2;
    if rec.idx % 499 == 1 {
        rec.extra = json!({"family": "path", "iterations": r.iters, "decision_entries": rep.entries, "max_path_len": rep.max_len, "kinds_sched_load_spur": rep.kinds});
    }
    if !rec.viol.is_empty() {
        rec.prog_json = serde_json::to_value(&p).unwrap();
    }
}

/// C15 on blocking programs (blocked threads are forced switches, not preemptions). Every fourth of them has yields
/// sprinkled in (a thread that yields while it holds a lock, a thread with fewer yields that becomes runnable later):
/// for those only the first clause (no execution with more than n preemptive switches, counted from the decision paths)
/// is judged, because result sets of programs with yields are subject to the open C18 finding.
fn c15_sync(rec: &mut Rec, tier: u8, seed: u64, idx: usize) {
    use crate::sync::{run_loom, SCfg, SOp::*, SProg};
    let sp = |threads: Vec<Vec<crate::sync::SOp>>| SProg { threads, loom_arc: false, forget_rx: false, rx_owner: 0 };
    let with_yields = (idx / 4) % 4 == 0;
    let p = match (with_yields, idx / 16) {
        (true, 0) => sp(vec![vec![Lock(0), Yield, AStore(0, 1), Unlock(0), AStore(1, 1), ALoad(0), Join(1)], vec![ALoad(0), Lock(0), AStore(0, 2), Unlock(0), ALoad(1)]]),
        (true, 1) => sp(vec![vec![Yield, AStore(0, 1), ALoad(1), AStore(0, 2), Join(1)], vec![ALoad(0), AStore(1, 1), ALoad(0)]]),
        (true, 2) => sp(vec![vec![Write, Yield, RwUnlock, AStore(0, 1), ALoad(1), Join(1), Join(2)], vec![Read, ALoad(0), RwUnlock, AStore(1, 1)], vec![ALoad(1), ALoad(0)]]),
        (true, _) => {
            let mut rng = Rng::new(seed, 0xC15 + idx as u64);
            let mut p = crate::fam_sync::prog_at("C07", 0, seed ^ 0x15, 50_000_000 + idx);
            let mut n = 0;
            for t in 0..p.threads.len() {
                let mut k = 0;
                while k < p.threads[t].len() {
                    if rng.chance(1, 3) && n < 2 {
                        p.threads[t].insert(k, Yield);
                        n += 1;
                        k += 1;
                    }
                    k += 1;
                }
            }
            if n == 0 {
                p.threads[0].insert(0, Yield);
            }
            p
        }
        // a load decision directly followed by the spurious-return decision of a Notify wait: two decisions of other kinds
        // sit between two scheduling decisions (the preemption count is carried from one scheduling decision to the next)
        (false, 0) => sp(vec![vec![AStore(0, 1), AStore(1, 1), NNotify, AStore(0, 2), ALoad(1), Join(1)], vec![ALoad(0), NWait, ALoad(1), AStore(1, 2), ALoad(0)]]),
        (false, 1) => sp(vec![vec![AStore(0, 1), NNotify, AStore(1, 1), AStore(0, 2), Join(1), Join(2)], vec![ALoad(0), NWait, ALoad(1), ALoad(0)], vec![ALoad(1), AStore(0, 3), ALoad(0)]]),
        (false, 2) => sp(vec![vec![RStore(0, 1), NNotify, RStore(0, 2), RLoad(1), Join(1)], vec![RLoad(0), NWait, RLoad(0), RStore(1, 1), RLoad(0)]]),
        // two threads race, and the later one is blocked when the earlier one acts; what unblocks it comes from a third
        // thread: the other order of the race needs the third thread scheduled first, which no dependence of the blocked
        // thread's own operations asks for (round 13)
        (false, 3) if idx % 16 == 7 => SProg { threads: vec![vec![Join(1), Join(2), Join(3), Recv, Recv], vec![Send(1)], vec![Park, Send(2)], vec![Unpark(2)]], loom_arc: false, forget_rx: false, rx_owner: 0 },
        (false, 3) if idx % 16 == 11 => sp(vec![vec![Join(1), Join(2), Join(3)], vec![AStore(0, 1), ALoad(1)], vec![Park, AStore(1, 1), ALoad(0)], vec![Unpark(2)]]),
        (false, 3) => SProg { threads: vec![vec![Join(1), Join(2), Join(3)], vec![AStore(0, 1), ALoad(1)], vec![Recv, AStore(1, 1), ALoad(0)], vec![Send(5)]], loom_arc: false, forget_rx: false, rx_owner: 2 },
        (false, _) => crate::fam_sync::prog_at(if idx % 8 == 3 { "C07" } else { "C01" }, 0, seed ^ 0x15, 50_000_000 + idx),
    };
    rec.hash = p.hash();
    rec.prog = p.s();
    rec.extra = json!({"family": "path"});
    let cfg = SCfg { iter_cap: if tier == 0 { 20_000 } else { 60_000 }, max_branches: 5000, keep_paths: true, ..Default::default() };
    let base = run_loom(&p, &cfg);
    rec.runs = 1;
    rec.iters = base.iters as u64;
    rec.events = base.events as u64;
    if base.panic.is_some() {
        // failing programs (deadlocks, ...) stop at their first failing iteration: no result sets to compare
        rec.status = if base.kind() == Some(PanicKind::IterCap) { "inconclusive:iteration-cap".into() } else { "ok".into() };
        return;
    }
    let nops: usize = p.threads.iter().map(|t| t.len()).sum();
    let big = nops + p.threads.len() + 1;
    let mut sets: Vec<(usize, BTreeSet<crate::sync::Term>)> = Vec::new();
    for n in [0usize, 1, 2, 3, big] {
        let r = run_loom(&p, &SCfg { preemption_bound: Some(n), ..cfg.clone() });
        rec.runs += 1;
        rec.iters += r.iters as u64;
        match r.kind() {
            Some(PanicKind::IterCap) => {
                rec.status = "inconclusive:iteration-cap".into();
                return;
            }
            Some(_) if with_yields => {
                // with yields the unbounded exploration is not complete (open C18 finding): a failure (deadlock) that only a
                // bounded run reaches says nothing about the bound; the paths seen so far are still judged
                let rep = pathmon::check(&r.paths, Some(n), false);
                add_path_viol(rec, &rep, &format!("bound {} (failing run): ", n));
                break;
            }
            Some(k) => {
                rec.v("unexpected_panic", format!("{} @ {}", k.short(), r.panic_file), format!("bound {}: {}", n, r.panic.clone().unwrap_or_default()));
                break;
            }
            None => {}
        }
        let rep = pathmon::check(&r.paths, Some(n), true);
        add_path_viol(rec, &rep, &format!("bound {}: ", n));
        if !with_yields {
            if !r.outcomes.is_subset(&base.outcomes) {
                rec.v("bounded_not_subset", "", format!("bound {} produced {} results the unbounded run lacks", n, r.outcomes.difference(&base.outcomes).count()));
            }
            sets.push((n, r.outcomes));
        }
    }
    for w in sets.windows(2) {
        if !w[0].1.is_subset(&w[1].1) {
            rec.v("bounded_not_monotone", "", format!("results found with bound {} are lost with bound {}", w[0].0, w[1].0));
        }
    }
    if let Some(last) = sets.last() {
        if last.0 == big && last.1 != base.outcomes {
            rec.v("bounded_full_differs", "", format!("bound {} (>= number of operations) gives {} results, unbounded {}", big, last.1.len(), base.outcomes.len()));
        }
    }
    rec.nontrivial = base.iters >= 2;
    if !rec.viol.is_empty() {
        rec.prog_json = serde_json::to_value(&p).unwrap();
    }
    if rec.idx % 97 == 3 {
        rec.extra = json!({"family": "path", "blocking_program": true, "with_yields": with_yields, "unbounded_results": base.outcomes.len(), "unbounded_iterations": base.iters});
    }
}

/// C13 on a blocking program: determinism and clean stop / resume at every k (Spurious branches, disabled threads)
fn c13_sync(rec: &mut Rec, tier: u8, seed: u64, idx: usize) {
    use crate::sync::{run_loom, SCfg, SOp::*, SProg};
    // the first slots: waits on loom::sync::Notify (every wait is a Spurious branch in the stored path: taken or not yet)
    let sp = |threads: Vec<Vec<crate::sync::SOp>>| SProg { threads, loom_arc: false, forget_rx: false, rx_owner: 0 };
    let p = match idx {
        5 => sp(vec![vec![AStore(0, 1), NNotify, ALoad(1), Join(1)], vec![NWait, ALoad(0), AStore(1, 1)]]),
        8 => sp(vec![vec![NNotify, AStore(0, 1), NNotify, Join(1)], vec![NWait, ALoad(0), NWait, ALoad(0)]]),
        11 => sp(vec![vec![ALoad(0), NNotify, Join(1), Join(2)], vec![NWait, AStore(0, 1)], vec![ALoad(0), AStore(0, 2)]]),
        _ => sync_prog_for(seed, idx),
    };
    rec.hash = p.hash();
    rec.prog = p.s();
    rec.extra = json!({"family": "path"});
    let cfg = SCfg { iter_cap: 20_000, max_branches: 5000, keep_paths: true, ..Default::default() };
    let full = run_loom(&p, &cfg);
    rec.runs = 1;
    rec.iters = full.iters as u64;
    let n = full.iters;
    if full.panic.is_some() || n < 3 || n > if tier == 0 { 80 } else { 300 } {
        return;
    }
    let fd = digest_paths(&full.paths);
    let again = run_loom(&p, &cfg);
    rec.runs += 1;
    if again.seq != full.seq || digest_paths(&again.paths) != fd {
        rec.v("nondeterministic", "", "two runs in one process visit different executions".to_string());
    }
    let dir = verif_root().join("work");
    let _ = std::fs::create_dir_all(&dir);
    let file = dir.join(format!("ckpt-sync-{}-{}-{}.json", std::process::id(), seed, idx)).to_string_lossy().to_string();
    let mut stops = 0u64;
    'outer: for interval in [1usize, 2, 3] {
        for k in 1..=n {
            let _ = std::fs::remove_file(&file);
            let first = run_loom(&p, &SCfg { checkpoint_file: Some(file.clone()), checkpoint_interval: Some(interval), max_permutations: Some(k), ..cfg.clone() });
            let stop = ((k + interval - 1) / interval) * interval;
            let expect_first = (stop - 1).min(n);
            let exists = std::path::Path::new(&file).exists();
            let rest = run_loom(&p, &SCfg { checkpoint_file: Some(file.clone()), checkpoint_interval: Some(interval), ..cfg.clone() });
            rec.runs += 2;
            rec.iters += (first.iters + rest.iters) as u64;
            stops += 1;
            let last_boundary = if stop <= n { stop } else { (n / interval) * interval };
            let from = if exists && last_boundary >= 1 { last_boundary - 1 } else { 0 };
            let ok_first = first.panic.is_none() && first.seq.len() == expect_first && first.seq[..] == full.seq[..expect_first];
            let ok_rest = rest.panic.is_none() && rest.seq[..] == full.seq[from..] && digest_paths(&rest.paths)[..] == fd[from..];
            if !ok_first || !ok_rest {
                rec.v("checkpoint_resume", "", format!("interval={} stop request k={} (of {}): stopped run executed {} iterations (expected {}), resumed run {} iterations (expected {} = suffix from iteration {}); resumed panic {:?}", interval, k, n, first.seq.len(), expect_first, rest.seq.len(), n - from, from + 1, rest.panic.as_ref().map(|m| m.lines().next().unwrap_or("").to_string())));
                break 'outer;
            }
        }
    }
    let _ = std::fs::remove_file(&file);
    rec.nontrivial = true;
    rec.extra = json!({"family": "path", "iterations": n, "stop_resume_pairs": stops, "spurious_branches": full.paths.iter().flatten().filter(|b| matches!(b, loom::verif::Branch::Spurious { .. })).count()});
    if !rec.viol.is_empty() {
        rec.prog_json = serde_json::to_value(&p).unwrap();
    }
}

pub fn work(prop: &str, tier: u8, seed: u64, idx: usize) -> Rec {
    let mut rec = Rec::new(idx);
    if prop == "C13" && idx < 4 {
        c13_dtor(&mut rec, idx);
        return rec;
    }
    if prop == "C13" && idx % 3 == 2 {
        c13_sync(&mut rec, tier, seed, idx);
        return rec;
    }
    if prop == "C14" && idx % 2 == 1 {
        c14_sync(&mut rec, tier, seed, idx);
        return rec;
    }
    if prop == "C15" && idx % 4 == 3 {
        c15_sync(&mut rec, tier, seed, idx);
        return rec;
    }
    let p = prog_for(prop, tier, seed, idx);
    judge(prop, &p, &mut rec, tier, seed, idx);
    rec
}

pub fn judge(prop: &str, p: &Prog, rec: &mut Rec, tier: u8, seed: u64, idx: usize) {
    rec.hash = p.hash();
    rec.prog = p.s();
    rec.prog_json = Value::Null;
    rec.extra = json!({"family": "path"});
    let before = rec.viol.len();
    match prop {
        "C14" => c14(p, rec, tier),
        "C15" => c15(p, rec, tier),
        "C19" => c19(p, rec, tier),
        "C13" => c13(p, rec, tier, seed, idx),
        _ => unreachable!(),
    }
    if rec.viol.len() > before {
        rec.prog_json = serde_json::to_value(p).unwrap();
    }
}

fn account(rec: &mut Rec, r: &RunResult) {
    rec.runs += 1;
    rec.iters += r.iters as u64;
    rec.events += r.events as u64;
    rec.outcomes += r.outcomes.len() as u64;
    rec.orders += r.orders.len() as u64;
    rec.entries += r.paths.iter().map(|p| p.len() as u64).sum::<u64>();
}

fn c14(p: &Prog, rec: &mut Rec, tier: u8) {
    let r = run(p, &base_cfg(tier));
    account(rec, &r);
    match r.kind() {
        Some(PanicKind::IterCap) => {
            rec.status = "inconclusive:iteration-cap".into();
            return;
        }
        Some(k) => {
            rec.v("unexpected_panic", format!("{} @ {}", k.short(), last_panic_file()), r.panic.clone().unwrap_or_default());
            return;
        }
        None => {}
    }
    if r.hook_calls != r.iters || r.paths.len() != r.iters {
        rec.v("path_count", "", format!("{} iterations but {} decision paths", r.iters, r.paths.len()));
    }
    let rep = pathmon::check(&r.paths, None, true);
    add_path_viol(rec, &rep, "");
    // every iteration's decision path is non-empty and the number of leaves equals the number of iterations
    let distinct: BTreeSet<String> = r.paths.iter().map(|x| format!("{:?}", x)).collect();
    if distinct.len() != r.iters {
        rec.v("path_repeat", "", format!("{} iterations but {} distinct decision paths", r.iters, distinct.len()));
    }
    // the same with decisions that are recorded while exploration is switched off (regions around main's / thread 1's
    // operations, skip_branch): such a decision is never advanced (a restricted run may well have MORE iterations than
    // the unrestricted one - conflicts found inside a region backtrack to an earlier, coarser decision)
    if rec.idx % 4 == 0 && rec.viol.is_empty() {
        for ctrl in [3u8, 5, 4, 11] {
            if ctrl == 5 && p.threads.len() < 2 {
                continue;
            }
            let mut cfg = base_cfg(tier);
            cfg.ctrl = ctrl;
            let rc = run(p, &cfg);
            account(rec, &rc);
            if rc.panic.is_some() {
                continue;
            }
            let repc = pathmon::check(&rc.paths, None, true);
            add_path_viol(rec, &repc, &format!("ctrl {}: ", ctrl));
            // the same under a preemption bound (conservative backtrack points must respect the regions too)
            for bound in if ctrl == 3 || ctrl == 11 { vec![0usize, 1] } else { vec![] } {
                let mut cfg = base_cfg(tier);
                cfg.ctrl = ctrl;
                cfg.preemption_bound = Some(bound);
                let rb = run(p, &cfg);
                account(rec, &rb);
                match rb.kind() {
                    Some(PanicKind::IterCap) => {}
                    Some(k) => rec.v("unexpected_panic", format!("{} @ {}", k.short(), last_panic_file()), format!("ctrl {} with preemption bound {}: the unbounded run of the same program returns normally, this one panicked: {}", ctrl, bound, rb.panic.clone().unwrap_or_default().lines().next().unwrap_or(""))),
                    None => {
                        let repb = pathmon::check(&rb.paths, Some(bound), true);
                        add_path_viol(rec, &repb, &format!("ctrl {} bound {}: ", ctrl, bound));
                    }
                }
            }
        }
    }
    rec.nontrivial = r.iters >= 2;
    if rec.idx % 499 == 0 {
        rec.extra = json!({"family": "path", "iterations": r.iters, "decision_entries": rep.entries, "max_path_len": rep.max_len, "kinds_sched_load_spur": rep.kinds});
    }
}

fn c15(p: &Prog, rec: &mut Rec, tier: u8) {
    let nops = p.all_ops().count();
    let base = run(p, &base_cfg(tier));
    account(rec, &base);
    if base.panic.is_some() {
        rec.status = if base.kind() == Some(PanicKind::IterCap) { "inconclusive:iteration-cap".into() } else { "inconclusive:base-run-panicked".into() };
        return;
    }
    let mut sets: Vec<(usize, BTreeSet<Vec<u64>>)> = Vec::new();
    let big = nops + p.threads.len() + 1;
    let mut strictly_smaller = 0;
    for n in [0usize, 1, 2, 3, 4, 5, 6, big] {
        let mut cfg = base_cfg(tier);
        cfg.preemption_bound = Some(n);
        let r = run(p, &cfg);
        account(rec, &r);
        match r.kind() {
            Some(PanicKind::IterCap) => {
                rec.status = "inconclusive:iteration-cap".into();
                return;
            }
            Some(k) => {
                rec.v("unexpected_panic", format!("{} @ {}", k.short(), last_panic_file()), format!("bound {}: {}", n, r.panic.clone().unwrap_or_default()));
                return;
            }
            None => {}
        }
        // (i) from the decision paths, independent of loom's counter
        let rep = pathmon::check(&r.paths, Some(n), true);
        add_path_viol(rec, &rep, &format!("bound {}: ", n));
        // (ii) from the client-boundary log: a switch away from a thread that still has operations
        // left (litmus operations never block) is a preemption; lower bound on (i)
        if !p.has_await() && !p.staged() {
            let lens: Vec<usize> = (0..p.threads.len()).map(|t| p.threads[t].len() + if t == 0 { p.pre.len() } else { 0 }).collect();
            for (i, order) in r.order_seq.iter().enumerate() {
                let mut done = vec![0usize; p.threads.len()];
                let mut pre = 0;
                for w in 0..order.len() {
                    let t = order[w].0 as usize;
                    if w > 0 {
                        let pt = order[w - 1].0 as usize;
                        if pt != t && done[pt] < lens[pt] {
                            pre += 1;
                        }
                    }
                    done[t] += 1;
                }
                if pre > n {
                    rec.v("preemption_bound_exceeded", "", format!("bound {}: iteration {} shows {} switches away from a thread with operations left (log order {:?})", n, i, pre, order));
                    break;
                }
            }
        }
        if !r.outcomes.is_subset(&base.outcomes) {
            let extra: Vec<_> = r.outcomes.difference(&base.outcomes).take(3).collect();
            rec.v("bounded_not_subset", "", format!("bound {} produced results the unbounded run lacks: {:?}", n, extra));
        }
        if r.outcomes.len() < base.outcomes.len() {
            strictly_smaller += 1;
        }
        sets.push((n, r.outcomes));
    }
    for w in sets.windows(2) {
        if !w[0].1.is_subset(&w[1].1) {
            let lost: Vec<_> = w[0].1.difference(&w[1].1).take(3).collect();
            rec.v("bounded_not_monotone", "", format!("results found with bound {} are lost with bound {}: {:?}", w[0].0, w[1].0, lost));
        }
    }
    if sets.last().unwrap().1 != base.outcomes {
        rec.v("bounded_full_differs", "", format!("bound {} (>= number of operations) gives {} results, unbounded {}", big, sets.last().unwrap().1.len(), base.outcomes.len()));
    }
    rec.nontrivial = base.outcomes.len() >= 2 && p.threads.iter().filter(|t| !t.is_empty()).count() >= 2;
    if rec.idx % 97 == 0 {
        rec.extra = json!({"family": "path", "unbounded_results": base.outcomes.len(), "results_by_bound": sets.iter().map(|(n, s)| json!([n, s.len()])).collect::<Vec<_>>(), "bounds_with_strictly_fewer_results": strictly_smaller});
    }
}

/// a region placed after all joins contains no decision with two alternatives when every
/// location is written by at most one thread (then the final loads have a single candidate)
fn single_writer_locations(p: &Prog) -> bool {
    (0..p.nlocs as u8).all(|l| {
        let mut writers = 0;
        if p.pre.iter().any(|o| o.loc() == Some(l) && o.is_write()) || p.threads[0].iter().any(|o| o.loc() == Some(l) && o.is_write()) {
            writers += 1;
        }
        for t in 1..p.threads.len() {
            if p.threads[t].iter().any(|o| o.loc() == Some(l) && o.is_write()) {
                writers += 1;
            }
        }
        writers <= 1
    })
}

fn c19(p: &Prog, rec: &mut Rec, tier: u8) {
    let base = run(p, &base_cfg(tier));
    account(rec, &base);
    if base.panic.is_some() {
        rec.status = if base.kind() == Some(PanicKind::IterCap) { "inconclusive:iteration-cap".into() } else { "inconclusive:base-run-panicked".into() };
        return;
    }
    let base_rep = pathmon::check(&base.paths, None, true);
    let l = base_rep.max_len;
    let mut region_effect = 0;
    // --- exploration controls
    let mut skip4: Option<(usize, BTreeSet<Vec<u64>>, usize)> = None;
    for ctrl in [1u8, 2, 3, 4, 5, 6, 7, 8, 9, 10, 12, 13] {
        if ctrl == 5 && p.threads.len() < 2 {
            continue;
        }
        // placement 7 needs an explorable decision right before the region (a memory access as main's first operation)
        // and, for its lower bound, a region without read decisions (stores only): inside a region a load takes its
        // first candidate store, which need not be the latest one
        if ctrl == 7 && (p.threads[0].len() < 2 || p.has_await() || !p.threads[0][0].is_mem() || !p.threads[0][1..].iter().all(|o| matches!(o, Op::Store { .. }))) {
            continue;
        }
        let mut cfg = base_cfg(tier);
        cfg.ctrl = ctrl;
        let r = run(p, &cfg);
        account(rec, &r);
        match r.kind() {
            Some(PanicKind::IterCap) => {
                rec.status = "inconclusive:iteration-cap".into();
                return;
            }
            Some(k) => {
                rec.v("unexpected_panic", format!("{} @ {}", k.short(), last_panic_file()), format!("ctrl {}: {}", ctrl, r.panic.clone().unwrap_or_default()));
                continue;
            }
            None => {}
        }
        let rep = pathmon::check(&r.paths, None, true);
        add_path_viol(rec, &rep, &format!("ctrl {}: ", ctrl));
        if !r.outcomes.is_subset(&base.outcomes) {
            let extra: Vec<_> = r.outcomes.difference(&base.outcomes).take(3).collect();
            rec.v("ctrl_not_subset", "", format!("ctrl {}: results outside the unrestricted set: {:?}", ctrl, extra));
        }
        let must_equal = match ctrl {
            1 | 6 | 8 => true,
            2 => single_writer_locations(p),
            _ => false,
        };
        if must_equal && r.outcomes != base.outcomes {
            let lost: Vec<_> = base.outcomes.difference(&r.outcomes).take(3).collect();
            rec.v("ctrl_lost_outside_region", "", format!("ctrl {}: the region contains no decision with two alternatives, yet results were lost: {:?} ({} iterations vs {})", ctrl, lost, r.iters, base.iters));
        }
        if ctrl == 7 {
            // decisions outside the region stay explorable: every placement of main's block among the other threads'
            // operations (the conflicts found inside the region backtrack to the explorable decision before it)
            let must = crate::rc11::outcomes_sc_main_atomic(p);
            let lost: Vec<_> = must.difference(&r.outcomes).take(3).collect();
            if !lost.is_empty() {
                rec.v("ctrl_lost_outside_region", "", format!("ctrl 7 (region around main's operations after its first one): placements of the region relative to the other threads were not explored, results lost: {:?} ({} iterations, unrestricted {})", lost, r.iters, base.iters));
            }
        }
        if must_equal && matches!(ctrl, 1 | 6 | 8) && r.iters != base.iters {
            rec.v("ctrl_lost_outside_region", "", format!("ctrl {}: {} iterations instead of {}", ctrl, r.iters, base.iters));
        }
        // fences are not decision points; a region is only expected to show up in the path when it holds a memory access
        let region_has_access = match ctrl {
            3 => p.threads[0].iter().any(|o| o.is_mem()),
            7 => p.threads[0][1..].iter().any(|o| o.is_mem()),
            5 => p.threads[1].iter().any(|o| o.is_mem()),
            _ => false,
        };
        if region_has_access && rep.nonexploring_entries == 0 {
            rec.v("ctrl_region_not_marked", "", format!("ctrl {}: no decision was taken with exploration disabled although the region contains operations", ctrl));
        }
        if r.outcomes.len() < base.outcomes.len() || r.iters < base.iters {
            region_effect += 1;
        }
        if ctrl == 4 {
            skip4 = Some((r.iters, r.outcomes.clone(), rep.nonexploring_entries));
        }
        if ctrl == 13 && r.iters != 1 {
            // exploration was never switched on before skip_branch(): the explore() after it must not start it
            rec.v("ctrl_skip_restarted", "", format!("ctrl 13: expect_explicit_explore with skip_branch() before the first explore() ran {} iterations / {} results; no decision may have an alternative", r.iters, r.outcomes.len()));
        }
        if let (12, Some((it4, out4, ne4))) = (ctrl, &skip4) {
            if r.iters != *it4 || r.outcomes != *out4 || rep.nonexploring_entries != *ne4 {
                rec.v("ctrl_skip_restarted", "", format!("ctrl 12: stop_exploring(); skip_branch(); explore() ran {} iterations / {} results / {} decisions with exploration off; skip_branch() alone {} / {} / {}", r.iters, r.outcomes.len(), rep.nonexploring_entries, it4, out4.len(), ne4));
            }
        }
        if let (9 | 10, Some((it4, out4, ne4))) = (ctrl, &skip4) {
            // after skip_branch() a stray explore() (or a stop_exploring()/explore() pair) must not switch exploration back on
            if r.iters != *it4 || r.outcomes != *out4 || rep.nonexploring_entries != *ne4 {
                rec.v("ctrl_skip_restarted", "", format!("ctrl {}: skip_branch() followed by {}explore() ran {} iterations / {} results / {} decisions with exploration off; skip_branch() alone {} / {} / {}", ctrl, if ctrl == 10 { "stop_exploring(); " } else { "" }, r.iters, r.outcomes.len(), rep.nonexploring_entries, it4, out4.len(), ne4));
            }
        }
    }
    // --- max_branches: exactly the longest decision path is needed
    if l >= 2 {
        // every limit below the need (a run with a limit m < L fails in its first iteration that needs more: cheap)
        // (dense in the upper half, where a limit that silently grows would first be enough; a few small ones)
        let mut ms: Vec<usize> = (((l / 2).saturating_sub(1)).max(1)..l).rev().collect();
        ms.extend([1usize, 2, l / 3].iter().filter(|m| **m >= 1 && **m < (l / 2).saturating_sub(1).max(1)));
        ms.dedup();
        for m in ms {
            let mut cfg = base_cfg(tier);
            cfg.max_branches = Some(m);
            cfg.keep_paths = false;
            cfg.keep_seq = false;
            let r = run(p, &cfg);
            account(rec, &r);
            if r.kind() != Some(PanicKind::BranchLimit) {
                rec.v("max_branches", "", format!("longest decision path has {} entries; max_branches = {} ended with {:?} instead of the branch-limit panic", l, m, r.kind().map(|k| k.short())));
                break;
            }
        }
        let mut cfg = base_cfg(tier);
        cfg.max_branches = Some(l);
        let r = run(p, &cfg);
        account(rec, &r);
        if r.panic.is_some() || r.outcomes != base.outcomes {
            rec.v("max_branches", "", format!("max_branches = {} (the exact need) ended with {:?} / {} results vs {}", l, r.kind().map(|k| k.short()), r.outcomes.len(), base.outcomes.len()));
        }
        // the same limits for a run that is resumed from a checkpoint (the stored path is loaded, then the limit applied):
        // for a few stop points k, the remaining executions need L_k = the longest path from iteration k on; resuming with
        // any smaller limit must fail as documented, resuming with L_k must complete
        if l >= 3 && base.iters >= 3 && rec.idx % 4 == 0 {
            let n = base.iters;
            let dir = verif_root().join("work");
            let _ = std::fs::create_dir_all(&dir);
            let file = dir.join(format!("c19-ckpt-{}-{}.json", std::process::id(), rec.idx)).to_string_lossy().to_string();
            let copy = format!("{}.run", file);
            let mut ks = vec![2, n / 2 + 1];
            ks.retain(|k| *k >= 2 && *k <= n);
            ks.dedup();
            'ks: for k in ks {
                let lk = base.paths[k - 1..].iter().map(|x| x.len()).max().unwrap_or(0);
                if lk < 3 {
                    continue;
                }
                let _ = std::fs::remove_file(&file);
                let mut cfg = base_cfg(tier);
                cfg.checkpoint_file = Some(file.clone());
                cfg.checkpoint_interval = Some(1);
                cfg.max_permutations = Some(k);
                cfg.keep_paths = false;
                let first = run(p, &cfg);
                account(rec, &first);
                if first.panic.is_some() || !std::path::Path::new(&file).exists() {
                    continue;
                }
                let mut ms: Vec<usize> = (lk.saturating_sub(4).max(1)..lk).rev().collect();
                ms.push((lk / 2).max(1));
                ms.push(lk);
                for m in ms {
                    let _ = std::fs::copy(&file, &copy);
                    let mut cfg = base_cfg(tier);
                    cfg.checkpoint_file = Some(copy.clone());
                    cfg.checkpoint_interval = Some(1);
                    cfg.max_branches = Some(m);
                    cfg.keep_paths = false;
                    let r = run(p, &cfg);
                    account(rec, &r);
                    if m < lk && r.kind() != Some(PanicKind::BranchLimit) {
                        rec.v("max_branches", "resumed", format!("resumed at iteration {} (of {}) with max_branches = {} (the remaining executions need {}): ended with {:?} instead of the branch-limit panic: {}", k, n, m, lk, r.kind().map(|k| k.short()), r.panic.as_deref().unwrap_or("").lines().next().unwrap_or("")));
                        break 'ks;
                    }
                    if m == lk && r.panic.is_some() {
                        rec.v("max_branches", "resumed", format!("resumed at iteration {} (of {}) with max_branches = {} (the exact need of the remaining executions): {:?}", k, n, m, r.kind().map(|k| k.short())));
                        break 'ks;
                    }
                }
            }
            let _ = std::fs::remove_file(&file);
            let _ = std::fs::remove_file(&copy);
        }
    }
    // --- max_permutations with checkpoint interval c: stop at the first boundary >= m, no failure, prefix of the full sequence
    let n = base.iters;
    for (m, c) in [(1usize, 1usize), (2, 1), (n.saturating_sub(1).max(1), 1), (n, 1), (n + 1, 1), (2, 3), (3, 2), (n / 2 + 1, 4)] {
        let mut cfg = base_cfg(tier);
        cfg.max_permutations = Some(m);
        cfg.checkpoint_interval = Some(c);
        let r = run(p, &cfg);
        account(rec, &r);
        let stop = ((m + c - 1) / c) * c; // first multiple of c that is >= m
        let expect = (stop - 1).min(n);
        if r.panic.is_some() {
            rec.v("max_permutations", "", format!("max_permutations={} interval={} reported a failure: {:?}", m, c, r.kind().map(|k| k.short())));
        } else if r.iters > c * ((m + c - 1) / c) {
            rec.v("max_permutations", "", format!("max_permutations={} interval={} ran {} iterations (> {})", m, c, r.iters, c * ((m + c - 1) / c)));
        } else if r.iters != expect || r.seq[..] != base.seq[..expect] {
            rec.v("max_permutations", "", format!("max_permutations={} interval={}: ran {} iterations, expected the first {} of the unrestricted sequence of {}", m, c, r.iters, expect, n));
        }
    }
    // --- max_duration: 0 stops at the first boundary, 1 h never stops early
    {
        let c = 2usize;
        let mut cfg = base_cfg(tier);
        cfg.max_duration_ms = Some(0);
        cfg.checkpoint_interval = Some(c);
        let r = run(p, &cfg);
        account(rec, &r);
        if r.panic.is_some() || r.iters > c || r.iters != (c - 1).min(n) {
            rec.v("max_duration", "", format!("max_duration=0 interval={}: {} iterations, panic {:?}", c, r.iters, r.kind().map(|k| k.short())));
        }
        let mut cfg = base_cfg(tier);
        cfg.max_duration_ms = Some(3_600_000);
        cfg.checkpoint_interval = Some(1);
        let r = run(p, &cfg);
        account(rec, &r);
        if r.panic.is_some() || r.seq != base.seq {
            rec.v("max_duration", "", format!("max_duration=1h stopped early or differs: {} iterations vs {}", r.iters, n));
        }
    }
    // --- both limits set: each is honoured on its own terms, the run ends at the first boundary at which either is reached
    let both: Vec<(usize, u64, usize)> = if tier == 0 { vec![(1_000_000, 0, 1), (1_000_000, 0, 3), (3, 3_600_000, 2), (2, 0, 3)] } else { vec![(1_000_000, 0, 1), (1_000_000, 0, 2), (1_000_000, 0, 3), (1_000_000, 0, 5), (n + 7, 0, 4), (3, 3_600_000, 2), (n / 2 + 1, 3_600_000, 1), (2, 0, 3)] };
    for (m, ms, c) in both {
        let mut cfg = base_cfg(tier);
        cfg.max_permutations = Some(m);
        cfg.max_duration_ms = Some(ms);
        cfg.checkpoint_interval = Some(c);
        let r = run(p, &cfg);
        account(rec, &r);
        let by_perm = ((m + c - 1) / c) * c - 1;
        let expect = if ms == 0 { (c - 1).min(by_perm) } else { by_perm }.min(n);
        if r.panic.is_some() || r.iters != expect || r.seq[..] != base.seq[..expect] {
            rec.v(if ms == 0 { "max_duration" } else { "max_permutations" }, "", format!("max_permutations={} and max_duration={}ms with interval={}: ran {} iterations (panic {:?}), expected the first {} of the unrestricted sequence of {}", m, ms, c, r.iters, r.kind().map(|k| k.short()), expect, n));
        }
    }
    if rec.idx == 0 {
        max_threads_probe(rec);
    }
    rec.nontrivial = base.iters >= 2 && l >= 2;
    if rec.idx % 37 == 0 {
        rec.extra = json!({"family": "path", "iterations": n, "longest_path": l, "control_placements_that_reduced_exploration": region_effect});
    }
}

// ---------------------------------------------------------------------------------------------
// C13: determinism and resumption. Crash points run in child processes.
// ---------------------------------------------------------------------------------------------

#[derive(serde::Serialize, serde::Deserialize, Default, Debug, PartialEq, Clone)]
pub struct ChildOut {
    pub seq: Vec<Vec<u64>>,
    pub order_seq: Vec<Vec<(u8, u8)>>,
    pub path_digests: Vec<u64>,
    pub panic: Option<String>,
    pub iters: usize,
}

pub fn digest_paths(paths: &[Vec<loom::verif::Branch>]) -> Vec<u64> {
    paths.iter().map(|p| fnv(&format!("{:?}", p))).collect()
}

#[derive(serde::Serialize, serde::Deserialize)]
pub struct ChildJob {
    pub prog: Prog,
    pub file: Option<String>,
    pub interval: Option<usize>,
    pub max_perm: Option<usize>,
    pub abort_at: Option<(usize, bool)>,
    pub panic_on: Option<Vec<u64>>,
}

/// `lv child-lit <json>`: run one model in this (fresh) process and print the per-iteration record.
pub fn child_main(arg: &str) -> i32 {
    let job: ChildJob = serde_json::from_str(arg).expect("child job");
    let cfg = Cfg { iter_cap: 200_000, keep_paths: true, keep_seq: true, checkpoint_file: job.file.clone(), checkpoint_interval: job.interval, max_permutations: job.max_perm, abort_at: job.abort_at, panic_on_outcome: job.panic_on.clone(), ..Default::default() };
    let r = run(&job.prog, &cfg);
    let out = ChildOut { seq: r.seq, order_seq: r.order_seq, path_digests: digest_paths(&r.paths), panic: r.panic, iters: r.iters };
    println!("{}", serde_json::to_string(&out).unwrap());
    0
}

/// `lv child-threads <max_threads> <spawns>`: spawn `spawns` threads under a given max_threads.
pub fn child_threads(max_threads: usize, spawns: usize) -> i32 {
    let r = std::panic::catch_unwind(|| {
        let mut b = loom::model::Builder::new();
        b.max_threads = max_threads;
        b.check(move || {
            let x = std::sync::Arc::new(loom::sync::atomic::AtomicUsize::new(0));
            let hs: Vec<_> = (0..spawns)
                .map(|_| {
                    let x = x.clone();
                    loom::thread::spawn(move || {
                        x.fetch_add(1, std::sync::atomic::Ordering::Relaxed);
                    })
                })
                .collect();
            for h in hs {
                h.join().unwrap();
            }
            assert_eq!(x.load(std::sync::atomic::Ordering::Relaxed), spawns);
        });
    });
    match r {
        Ok(()) => println!("ok"),
        Err(e) => println!("panic: {}", panic_msg(e).lines().next().unwrap_or("")),
    }
    0
}

fn max_threads_probe(rec: &mut Rec) {
    let exe = std::env::current_exe().unwrap();
    for (mt, spawns) in [(5usize, 1usize), (5, 3), (5, 4), (5, 5), (5, 6), (3, 2), (3, 3), (2, 1), (2, 2)] {
        let out = std::process::Command::new(&exe).args(["child-threads", &mt.to_string(), &spawns.to_string()]).stderr(std::process::Stdio::null()).output();
        rec.runs += 1;
        let fits = spawns + 1 <= mt;
        match out {
            Ok(o) => {
                let text = String::from_utf8_lossy(&o.stdout).to_string();
                if !o.status.success() {
                    rec.v("max_threads", "", format!("max_threads={} with {} spawns: the process died ({}) instead of panicking", mt, spawns, o.status));
                } else if fits && !text.starts_with("ok") {
                    rec.v("max_threads", "", format!("max_threads={} with {} spawns must work, got: {}", mt, spawns, text.trim()));
                } else if !fits && !text.starts_with("panic") {
                    rec.v("max_threads", "", format!("max_threads={} with {} spawns must panic, got: {}", mt, spawns, text.trim()));
                }
            }
            Err(e) => rec.v("harness_error", "", format!("child-threads: {}", e)),
        }
    }
}

fn spawn_child(job: &ChildJob) -> Result<ChildOut, String> {
    let exe = std::env::current_exe().unwrap();
    let out = std::process::Command::new(exe).arg("child-lit").arg(serde_json::to_string(job).unwrap()).stderr(std::process::Stdio::null()).output().map_err(|e| e.to_string())?;
    if !out.status.success() {
        return Err(format!("{}", out.status));
    }
    serde_json::from_slice(&out.stdout).map_err(|e| e.to_string())
}

fn c13(p: &Prog, rec: &mut Rec, tier: u8, seed: u64, idx: usize) {
    let cfg = base_cfg(tier);
    let full = run(p, &cfg);
    account(rec, &full);
    if full.panic.is_some() {
        rec.status = "inconclusive:base-run-panicked".into();
        return;
    }
    let n = full.iters;
    if n < 3 || n > if tier == 0 { 120 } else { 400 } {
        rec.status = "ok".into();
        rec.nontrivial = false;
        rec.extra = json!({"family": "path", "skipped": "iteration count outside 3..=N"});
        return;
    }
    let full_d = digest_paths(&full.paths);
    // (a) same process twice, two fresh processes
    let again = run(p, &cfg);
    account(rec, &again);
    if again.seq != full.seq || again.order_seq != full.order_seq || digest_paths(&again.paths) != full_d {
        rec.v("nondeterministic", "", "two runs in one process visit different executions".to_string());
    }
    let job0 = ChildJob { prog: p.clone(), file: None, interval: None, max_perm: None, abort_at: None, panic_on: None };
    let mut stops = 0u64;
    match (spawn_child(&job0), spawn_child(&job0)) {
        (Ok(a), Ok(b)) => {
            rec.runs += 2;
            rec.iters += (a.iters + b.iters) as u64;
            if a != b {
                rec.v("nondeterministic", "", "two fresh processes visit different executions".to_string());
            }
            if a.seq != full.seq || a.path_digests != full_d {
                rec.v("nondeterministic", "", "a fresh process visits different executions than the worker process".to_string());
            }
        }
        (a, b) => {
            rec.v("harness_error", "", format!("child failed: {:?} {:?}", a.err(), b.err()));
            return;
        }
    }
    let dir = verif_root().join("work");
    let _ = std::fs::create_dir_all(&dir);
    let file = dir.join(format!("ckpt-{}-{}-{}.json", std::process::id(), seed, idx)).to_string_lossy().to_string();
    let mut rng = Rng::new(seed, idx as u64 ^ 0xC13);
    let big = 2 + rng.below(n.max(3));
    // (b) clean stop through max_permutations at every k, resume in-process
    for interval in [1usize, 2, 3, 7, big] {
        for k in 1..=n {
            let _ = std::fs::remove_file(&file);
            let mut c1 = cfg.clone();
            c1.checkpoint_file = Some(file.clone());
            c1.checkpoint_interval = Some(interval);
            c1.max_permutations = Some(k);
            let first = run(p, &c1);
            let stop = ((k + interval - 1) / interval) * interval;
            let expect_first = (stop - 1).min(n);
            let exists = std::path::Path::new(&file).exists();
            let mut c2 = cfg.clone();
            c2.checkpoint_file = Some(file.clone());
            c2.checkpoint_interval = Some(interval);
            let rest = run(p, &c2);
            rec.runs += 2;
            rec.iters += (first.iters + rest.iters) as u64;
            stops += 1;
            // the last checkpoint was stored at the largest multiple of `interval` that is <= min(stop, n)
            let last_boundary = if stop <= n { stop } else { (n / interval) * interval };
            let from = if exists && last_boundary >= 1 { last_boundary - 1 } else { 0 };
            if exists != (last_boundary >= 1) {
                rec.v("checkpoint_resume", "", format!("interval={} k={}: checkpoint file exists={} but last boundary is {}", interval, k, exists, last_boundary));
            }
            let ok_first = first.panic.is_none() && first.seq.len() == expect_first && first.seq[..] == full.seq[..expect_first] && digest_paths(&first.paths)[..] == full_d[..expect_first];
            let ok_rest = rest.panic.is_none() && rest.seq[..] == full.seq[from..] && digest_paths(&rest.paths)[..] == full_d[from..] && rest.order_seq[..] == full.order_seq[from..];
            if !ok_first || !ok_rest {
                rec.v("checkpoint_resume", "", format!("interval={} stop request k={} (of {}): stopped run executed {} iterations (expected {}), resumed run {} iterations (expected {} = suffix from iteration {})", interval, k, n, first.seq.len(), expect_first, rest.seq.len(), n - from, from + 1));
                break;
            }
        }
    }
    // (b') the same with a preemption bound (the configuration is part of the property's quantifier): bounded DPOR keeps
    // extra state in the path (links between schedule branches) that has to survive the checkpoint
    if p.threads.iter().filter(|t| !t.is_empty()).count() >= 3 || idx % 4 == 0 {
        for bound in [1usize, 2] {
            let mut cb = cfg.clone();
            cb.preemption_bound = Some(bound);
            let fullb = run(p, &cb);
            account(rec, &fullb);
            let nb = fullb.iters;
            if fullb.panic.is_some() || nb < 3 || nb > 400 {
                continue;
            }
            let fdb = digest_paths(&fullb.paths);
            'kloop: for interval in [1usize, 3] {
                for k in 1..=nb {
                    let _ = std::fs::remove_file(&file);
                    let mut c1 = cb.clone();
                    c1.checkpoint_file = Some(file.clone());
                    c1.checkpoint_interval = Some(interval);
                    c1.max_permutations = Some(k);
                    let first = run(p, &c1);
                    let stop = ((k + interval - 1) / interval) * interval;
                    let exists = std::path::Path::new(&file).exists();
                    let mut c2 = cb.clone();
                    c2.checkpoint_file = Some(file.clone());
                    c2.checkpoint_interval = Some(interval);
                    let rest = run(p, &c2);
                    rec.runs += 2;
                    rec.iters += (first.iters + rest.iters) as u64;
                    stops += 1;
                    let last_boundary = if stop <= nb { stop } else { (nb / interval) * interval };
                    let from = if exists && last_boundary >= 1 { last_boundary - 1 } else { 0 };
                    if rest.panic.is_some() || rest.seq[..] != fullb.seq[from..] || digest_paths(&rest.paths)[..] != fdb[from..] {
                        rec.v("checkpoint_resume", "", format!("preemption_bound={} interval={} stop request k={} (of {}): resumed run has {} iterations, expected {} = suffix of the uninterrupted bounded run from iteration {}", bound, interval, k, nb, rest.seq.len(), nb - from, from + 1));
                        break 'kloop;
                    }
                }
            }
        }
    }
    // (c) crash (process abort) at the start / in the middle of iteration k (0-based), resume in a fresh process
    let ks: Vec<usize> = if tier == 0 { (0..n).step_by((n / 12).max(1)).collect() } else { (0..n).collect() };
    for interval in [1usize, 3] {
        for &k in &ks {
            for mid in [false, true] {
                let _ = std::fs::remove_file(&file);
                let crash = ChildJob { prog: p.clone(), file: Some(file.clone()), interval: Some(interval), max_perm: None, abort_at: Some((k, mid)), panic_on: None };
                if spawn_child(&crash).is_ok() {
                    rec.v("harness_error", "", "crash child did not crash".to_string());
                    continue;
                }
                let resume = ChildJob { prog: p.clone(), file: Some(file.clone()), interval: Some(interval), max_perm: None, abort_at: None, panic_on: None };
                match spawn_child(&resume) {
                    Ok(r) => {
                        rec.runs += 2;
                        rec.iters += (k + r.iters) as u64;
                        stops += 1;
                        // checkpoints are written at the top of iteration i (1-based) when i % interval == 0, i <= k+1
                        let last = ((k + 1) / interval) * interval;
                        let from = if last >= 1 { last - 1 } else { 0 };
                        if r.panic.is_some() || r.seq[..] != full.seq[from..] || r.path_digests[..] != full_d[from..] {
                            rec.v("checkpoint_resume", "", format!("crash at iteration {} ({}), interval {}: resumed run has {} iterations, expected the suffix of {} from iteration {}", k + 1, if mid { "mid-iteration" } else { "start" }, interval, r.seq.len(), n, from + 1));
                        }
                    }
                    Err(e) => rec.v("checkpoint_resume", "", format!("resume after crash at iteration {} failed: {}", k + 1, e)),
                }
            }
        }
    }
    // (d) a failing iteration's checkpoint (interval 1) reproduces the failure as the first iteration after loading
    let targets: Vec<usize> = vec![0, n / 2, n - 1];
    for &j in &targets {
        let outcome = full.seq[j].clone();
        // first iteration producing this outcome
        let j0 = full.seq.iter().position(|o| *o == outcome).unwrap();
        let _ = std::fs::remove_file(&file);
        let fail = ChildJob { prog: p.clone(), file: Some(file.clone()), interval: Some(1), max_perm: None, abort_at: None, panic_on: Some(outcome.clone()) };
        let a = spawn_child(&fail);
        let b = spawn_child(&fail);
        match (a, b) {
            (Ok(a), Ok(b)) => {
                rec.runs += 2;
                stops += 1;
                let want = format!("{}outcome", USER_PANIC_PREFIX);
                if a.panic.as_deref().map(|m| m.starts_with(&want)) != Some(true) || a.iters != j0 + 1 {
                    rec.v("checkpoint_failure_replay", "", format!("the run with the injected assertion failed at iteration {:?} / {:?}, expected iteration {}", a.iters, a.panic, j0 + 1));
                } else if b.panic != a.panic || b.iters != 1 || b.order_seq.first() != full.order_seq.get(j0) {
                    rec.v("checkpoint_failure_replay", "", format!("checkpoint of failing iteration {}: reloaded run failed after {} iterations with {:?}; first execution order {:?} vs {:?}", j0 + 1, b.iters, b.panic, b.order_seq.first(), full.order_seq.get(j0)));
                }
            }
            (a, b) => rec.v("harness_error", "", format!("child failed: {:?} {:?}", a.err(), b.err())),
        }
    }
    let _ = std::fs::remove_file(&file);
    rec.nontrivial = true;
    rec.extra = json!({"family": "path", "iterations": n, "stop_resume_pairs": stops});
}

// ---------------------------------------------------------------------------------------------
// C13 (determinism), destructors of thread-locals / lazy statics that perform loom operations
// ---------------------------------------------------------------------------------------------

mod dtor {
    use std::sync::atomic::Ordering::SeqCst;
    use std::sync::{Arc, Mutex};

    pub static ORDER: Mutex<Vec<u8>> = Mutex::new(Vec::new());
    /// the iteration's shared loom atomic (lazy statics are already gone when the main thread's thread-locals are dropped)
    static SHARED: Mutex<Option<Arc<loom::sync::atomic::AtomicUsize>>> = Mutex::new(None);
    pub struct D(pub u8);
    impl Drop for D {
        fn drop(&mut self) {
            // a modelled operation inside the destructor: the order of destructors is part of the execution
            let a = SHARED.lock().unwrap().clone();
            if let Some(a) = a {
                a.fetch_add(1, SeqCst);
            }
            ORDER.lock().unwrap().push(self.0);
        }
    }
    loom::thread_local! {
        static A: D = D(1);
        static B: D = D(2);
        static C: D = D(3);
        static E: D = D(4);
    }
    /// per-iteration destructor orders of a 2-thread model touching four thread-locals in a given order
    pub fn run(perm: usize) -> (Vec<Vec<u8>>, Option<String>) {
        let seq: Arc<Mutex<Vec<Vec<u8>>>> = Arc::new(Mutex::new(vec![]));
        let s2 = seq.clone();
        ORDER.lock().unwrap().clear();
        loom::verif::set_iteration_hook(Some(Box::new(move |_| {
            let o = std::mem::take(&mut *ORDER.lock().unwrap());
            s2.lock().unwrap().push(o);
        })));
        let r = std::panic::catch_unwind(move || {
            loom::model::Builder::new().check(move || {
                *SHARED.lock().unwrap() = Some(Arc::new(loom::sync::atomic::AtomicUsize::new(0)));
                let touch = move |k: usize| match (k + perm) % 4 {
                    0 => A.with(|_| ()),
                    1 => B.with(|_| ()),
                    2 => C.with(|_| ()),
                    _ => E.with(|_| ()),
                };
                let h = loom::thread::spawn(move || {
                    for k in 0..4 {
                        touch(k);
                    }
                });
                for k in (0..4).rev() {
                    touch(k);
                }
                h.join().unwrap();
            });
        });
        loom::verif::set_iteration_hook(None);
        let v = seq.lock().unwrap().clone();
        (v, r.err().map(crate::common::panic_msg))
    }
}

/// `lv child-dtor <perm>`
pub fn child_dtor(perm: usize) -> i32 {
    let (v, p) = dtor::run(perm);
    println!("{}", serde_json::to_string(&(v, p)).unwrap());
    0
}

pub fn c13_dtor(rec: &mut Rec, perm: usize) {
    rec.prog = format!("two threads touch four thread-locals (rotation {}) whose destructors perform a loom operation", perm);
    rec.hash = fnv(&rec.prog);
    rec.extra = json!({"family": "path"});
    let (a, pa) = dtor::run(perm);
    let (b, pb) = dtor::run(perm);
    rec.runs += 2;
    rec.iters += (a.len() + b.len()) as u64;
    if a != b || pa != pb {
        let i = (0..a.len().min(b.len())).find(|&i| a[i] != b[i]).unwrap_or(0);
        rec.v("nondeterministic", "", format!("two runs in one process: destructor orders differ, e.g. iteration {}: {:?} vs {:?} ({} / {} iterations)", i, a.get(i), b.get(i), a.len(), b.len()));
    }
    let exe = std::env::current_exe().unwrap();
    let mut outs = vec![];
    for _ in 0..3 {
        if let Ok(o) = std::process::Command::new(&exe).args(["child-dtor", &perm.to_string()]).stderr(std::process::Stdio::null()).output() {
            if let Ok(v) = serde_json::from_slice::<(Vec<Vec<u8>>, Option<String>)>(&o.stdout) {
                rec.runs += 1;
                rec.iters += v.0.len() as u64;
                outs.push(v);
            }
        }
    }
    if outs.len() < 3 {
        rec.v("harness_error", "", "child-dtor failed".to_string());
    } else if outs.iter().any(|o| *o != outs[0]) || outs[0].0 != a {
        rec.v("nondeterministic", "", format!("fresh processes disagree about the order in which thread-local destructors run: first iterations {:?} / {:?} / {:?} / in-process {:?}", outs[0].0.first(), outs[1].0.first(), outs[2].0.first(), a.first()));
    }
    rec.nontrivial = a.len() >= 1;
    rec.extra = json!({"family": "path", "iterations": a.len(), "first_iteration_destructor_order": a.first()});
}
