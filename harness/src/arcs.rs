//! ARC family (C10, C11, part of C06): loom::sync::Arc handles, alloc::Track values and raw
//! allocations cloned / inspected / moved / dropped / leaked by 2-4 threads; reference-count machine
//! as the executable model, replay of every iteration's log, drop-exactly-once counter.
use crate::common::*;
use crate::orch::*;
use serde::{Deserialize, Serialize};
use serde_json::json;
use std::collections::{BTreeSet, HashSet};
use std::sync::{Arc as SArc, Mutex as SM};

#[derive(Clone, Copy, Debug, PartialEq, Eq, Hash, PartialOrd, Ord, Serialize, Deserialize)]
pub enum AOp {
    Clone,
    Drop,
    Count,
    GetMut,
    /// only as the last handle operation of a thread holding exactly one handle
    TryUnwrap,
    /// like TryUnwrap, but a successfully unwrapped payload (it owns an alloc::Track) is forgotten: a leak on the Ok path only
    TryUnwrapForget,
    PtrEq,
    RawRound,
    Inc,
    Dec,
    Forget,
    SetFlag,
    DropOrForgetIfFlag,
    ReadPayload,
    TrackDrop,
    TrackForget,
    AllocDealloc,
    AllocLeak,
    TrackDropInUnwind,
    AllocDeallocInUnwind,
    /// gives a handle back the way FFI code does: `into_raw`, then `decrement_strong_count` on the pointer (reads the payload
    /// first, like Drop: the hb witness for the final drop)
    RawDrop,
    /// `strong_count` of the handle all threads share BY REFERENCE (programs with `shared`)
    CountShared,
    /// clone the shared handle (the new handle is owned by this thread)
    CloneShared,
    /// `increment_strong_count` through the shared handle's pointer; the reference obtained is given back by main after it
    /// has joined every child (no release sits next to the increment in the thread that performs it)
    IncShared,
    /// a child gives its handle to main instead of releasing it (main releases it after it has joined every child): the
    /// thread performs no release at all. Programs with `shared` only, never in main
    HandOver,
}

#[derive(Clone, Debug, PartialEq, Eq, Hash, Serialize, Deserialize)]
pub struct AProg {
    pub threads: Vec<Vec<AOp>>,
    /// the payload's destructor fails a user assertion (C06 crash point "inside Drop")
    pub panic_in_drop: bool,
    /// the children are detached (JoinHandle dropped right after the spawn) and return a value nobody takes; the thread
    /// drops it on its way out, and its destructor is the first user of a thread-local that owns tracked objects
    #[serde(default)]
    pub detached: bool,
    /// one more handle exists that no thread owns: all threads reach it through a reference (an `Arc` field of a shared
    /// structure); main drops it after it has joined every child
    #[serde(default)]
    pub shared: bool,
}

impl AProg {
    pub fn s(&self) -> String {
        format!("{}{}{}", if self.panic_in_drop { "[payload drop panics] " } else { "" }, if self.detached { "[detached children, return value's destructor initialises a thread-local] " } else if self.shared { "[one more handle shared by reference, dropped by main after the joins] " } else { "" }, self.threads.iter().map(|t| t.iter().map(|o| format!("{:?}", o)).collect::<Vec<_>>().join("; ")).collect::<Vec<_>>().join("  ||  "))
    }
    pub fn hash(&self) -> u64 {
        fnv(&self.s())
    }
}

#[derive(Clone, Debug, PartialEq, Eq, Hash, PartialOrd, Ord)]
pub enum ATerm {
    /// per-thread results; (thread, pc) of the operation that dropped the payload (255,255 = end-of-thread drop of thread t encoded as (t, 254))
    Done(Vec<Vec<i64>>),
    LeakArc,
    LeakAlloc,
    Failed,
}

#[derive(Clone, PartialEq, Eq, Hash)]
struct St {
    pc: Vec<u8>,
    handles: Vec<u8>,
    count: i32,
    flag: u8,
    res: Vec<Vec<i64>>,
    payload_drops: u8,
    payload_forgotten: bool,
    leak_alloc: bool,
    track_live: Vec<bool>,
    finished: Vec<bool>,
    /// the handle shared by reference is alive
    g: bool,
}

fn init(p: &AProg) -> St {
    let n = p.threads.len();
    St { g: p.shared, pc: vec![0; n], handles: vec![1; n], count: n as i32 + p.shared as i32, flag: 0, res: vec![vec![]; n], payload_drops: 0, payload_forgotten: false, leak_alloc: false, track_live: vec![true; n], finished: vec![false; n] }
}

/// One step of thread t (each op is atomic; the end of a thread drops its remaining handles one by one and its Track value).
fn step(p: &AProg, s: &St, t: usize) -> Option<(St, Option<i64>)> {
    step_obs(p, s, t, None)
}

/// `flag_seen`: the value a SeqCst flag load actually returned (replay only). Loom treats SeqCst
/// loads as Acquire, so a load that is not ordered after the store may still return the old value.
fn step_obs(p: &AProg, s: &St, t: usize, flag_seen: Option<u8>) -> Option<(St, Option<i64>)> {
    if s.finished[t] {
        return None;
    }
    let mut ns = s.clone();
    let pc = s.pc[t] as usize;
    if pc >= p.threads[t].len() {
        // implicit end-of-thread drops
        if s.handles[t] > 0 {
            ns.handles[t] -= 1;
            ns.count -= 1;
            if ns.count == 0 {
                ns.payload_drops += 1;
            }
            return Some((ns, None));
        }
        if t == 0 && s.g {
            // main drops the shared handle after it has joined every child
            if !(1..p.threads.len()).all(|u| s.finished[u]) {
                return None;
            }
            ns.g = false;
            // (together with the references the threads obtained through `IncShared`)
            ns.count -= 1 + p.threads.iter().flatten().filter(|o| matches!(o, AOp::IncShared | AOp::HandOver)).count() as i32;
            if ns.count == 0 {
                ns.payload_drops += 1;
            }
            return Some((ns, None));
        }
        ns.track_live[t] = false;
        ns.finished[t] = true;
        return Some((ns, None));
    }
    let mut res = None;
    match p.threads[t][pc] {
        AOp::Clone => {
            ns.handles[t] += 1;
            ns.count += 1;
        }
        AOp::Drop | AOp::RawDrop => {
            ns.handles[t] -= 1;
            ns.count -= 1;
            if ns.count == 0 {
                ns.payload_drops += 1;
            }
        }
        AOp::Count | AOp::CountShared => res = Some(s.count as i64),
        AOp::CloneShared => {
            ns.handles[t] += 1;
            ns.count += 1;
        }
        AOp::GetMut => res = Some((s.count == 1) as i64),
        AOp::TryUnwrap => {
            if s.count == 1 {
                res = Some(1);
                ns.count = 0;
                ns.handles[t] -= 1;
                ns.payload_drops += 1;
            } else {
                res = Some(0);
            }
        }
        AOp::TryUnwrapForget => {
            if s.count == 1 {
                res = Some(1);
                ns.count = 0;
                ns.handles[t] -= 1;
                ns.leak_alloc = true;
                ns.payload_forgotten = true;
            } else {
                res = Some(0);
            }
        }
        AOp::PtrEq => res = Some(1),
        AOp::RawRound | AOp::ReadPayload => {}
        AOp::Inc | AOp::IncShared => ns.count += 1,
        AOp::Dec => ns.count -= 1,
        AOp::Forget | AOp::HandOver => {
            ns.handles[t] -= 1;
        }
        AOp::SetFlag => ns.flag = 1,
        AOp::DropOrForgetIfFlag => {
            let seen = match flag_seen {
                Some(0) => 0,
                _ => s.flag,
            };
            res = Some(seen as i64);
            ns.handles[t] -= 1;
            if seen == 0 {
                ns.count -= 1;
                if ns.count == 0 {
                    ns.payload_drops += 1;
                }
            }
        }
        AOp::TrackDrop | AOp::TrackDropInUnwind => ns.track_live[t] = false,
        AOp::TrackForget => {
            ns.track_live[t] = false;
            ns.leak_alloc = true;
        }
        AOp::AllocDealloc | AOp::AllocDeallocInUnwind => {}
        AOp::AllocLeak => ns.leak_alloc = true,
    }
    if let Some(r) = res {
        ns.res[t].push(r);
    }
    ns.pc[t] += 1;
    Some((ns, res))
}

pub struct ARef {
    pub terms: BTreeSet<ATerm>,
    pub states: usize,
}

pub fn reference(p: &AProg, budget: usize) -> Option<ARef> {
    let mut seen: HashSet<St> = HashSet::new();
    let mut terms = BTreeSet::new();
    let mut stack = vec![init(p)];
    while let Some(s) = stack.pop() {
        if !seen.insert(s.clone()) {
            continue;
        }
        if seen.len() > budget {
            return None;
        }
        if p.panic_in_drop && s.payload_drops > 0 {
            terms.insert(ATerm::Failed);
            continue;
        }
        let mut any = false;
        for t in 0..p.threads.len() {
            if let Some((ns, _)) = step(p, &s, t) {
                any = true;
                stack.push(ns);
            }
        }
        if !any {
            if s.count > 0 {
                // the payload owns an alloc::Track: a leaked Arc leaks it too, loom may name either
                terms.insert(ATerm::LeakArc);
                terms.insert(ATerm::LeakAlloc);
            }
            if s.leak_alloc {
                terms.insert(ATerm::LeakAlloc);
            }
            if s.count == 0 && !s.leak_alloc {
                debug_assert_eq!(s.payload_drops, 1);
                terms.insert(ATerm::Done(s.res.clone()));
            }
        }
    }
    Some(ARef { terms, states: seen.len() })
}

/// M-REPLAY on the count machine: the recorded events in execution order. `ends` = implicit drops
/// are interleaved freely (they leave no event), so the replay keeps a set of states.
pub fn replay(p: &AProg, log: &[(u8, u8, i64)]) -> Result<(), String> {
    let mut cur: HashSet<St> = HashSet::new();
    cur.insert(init(p));
    let close = |set: &mut HashSet<St>| {
        let mut work: Vec<St> = set.iter().cloned().collect();
        while let Some(s) = work.pop() {
            for t in 0..p.threads.len() {
                if s.pc[t] as usize >= p.threads[t].len() {
                    if let Some((ns, _)) = step(p, &s, t) {
                        if set.insert(ns.clone()) {
                            work.push(ns);
                        }
                    }
                }
            }
        }
    };
    for (i, &(t, pc, res)) in log.iter().enumerate() {
        close(&mut cur);
        let mut next = HashSet::new();
        for s in &cur {
            if s.pc[t as usize] != pc {
                continue;
            }
            if let Some((ns, r)) = step_obs(p, s, t as usize, Some(res as u8)) {
                if r.map(|x| x == res).unwrap_or(true) {
                    next.insert(ns);
                }
            }
        }
        if next.is_empty() {
            return Err(format!("event #{}: thread {} op {:?} returned {} which the reference-count machine does not give in any state consistent with the log so far", i, t, p.threads[t as usize].get(pc as usize), res));
        }
        cur = next;
    }
    Ok(())
}

// ---------------------------------------------------------------------------------------------

pub fn gen(rng: &mut Rng, leaks: bool, panic_in_drop: bool, tier: u8) -> AProg {
    use AOp::*;
    let t = if tier == 0 && rng.chance(2, 3) { 2 } else { 2 + rng.below(2) };
    let mut threads = Vec::new();
    // exploration cost grows steeply with the number of handle operations (every implicit end-of-thread drop counts too)
    let mut budget = match (tier, t) {
        (0, 2) => 6usize,
        (0, _) => 4,
        (_, 2) => 8,
        _ => 7,
    };
    let per_thread = if tier == 0 && t == 3 { 2 } else { 3 };
    let detached = rng.chance(1, 6);
    let shared = !detached && rng.chance(1, 5);
    for _ in 0..t {
        let len = (1 + rng.below(per_thread)).min(budget.max(1));
        budget = budget.saturating_sub(len);
        let mut held: i32 = 1;
        let mut incs = 0;
        let mut track = true;
        let mut ops: Vec<AOp> = Vec::new();
        for k in 0..len {
            for _try in 0..20 {
                let c = rng.below(if leaks { 16 } else { 10 });
                let last = k + 1 == len;
                if shared && rng.chance(1, 3) {
                    let op = if rng.chance(1, 2) { CountShared } else { CloneShared };
                    if op == CloneShared {
                        held += 1;
                    }
                    ops.push(op);
                    break;
                }
                let op = match c {
                    0 => Clone,
                    1 | 2 => {
                        if rng.chance(1, 5) {
                            RawDrop
                        } else {
                            Drop
                        }
                    }
                    3 => Count,
                    4 => GetMut,
                    5 => {
                        if last && held == 1 && incs == 0 {
                            if leaks && rng.chance(1, 2) {
                                TryUnwrapForget
                            } else {
                                TryUnwrap
                            }
                        } else {
                            continue;
                        }
                    }
                    6 => {
                        if rng.chance(1, 3) {
                            PtrEq
                        } else {
                            ReadPayload
                        }
                    }
                    7 => RawRound,
                    8 => {
                        if incs > 0 {
                            Dec
                        } else {
                            Inc
                        }
                    }
                    9 => Count,
                    10 => Forget,
                    11 => SetFlag,
                    12 => DropOrForgetIfFlag,
                    13 => {
                        if !track {
                            continue;
                        }
                        match rng.below(5) {
                            0 | 1 => TrackDrop,
                            2 => TrackDropInUnwind,
                            _ => TrackForget,
                        }
                    }
                    14 => {
                        if rng.chance(1, 4) {
                            AllocDeallocInUnwind
                        } else {
                            AllocDealloc
                        }
                    }
                    _ => AllocLeak,
                };
                let needs_handle = !matches!(op, CountShared | CloneShared | SetFlag | TrackDrop | TrackDropInUnwind | TrackForget | AllocDealloc | AllocDeallocInUnwind | AllocLeak);
                if needs_handle && held == 0 {
                    continue;
                }
                match op {
                    Clone | CloneShared => held += 1,
                    Drop | RawDrop | Forget | DropOrForgetIfFlag => {
                        // keep the handle used by a pending Inc alive
                        if incs > 0 && held == 1 {
                            continue;
                        }
                        held -= 1
                    }
                    Inc => incs += 1,
                    Dec => incs -= 1,
                    TrackDrop | TrackDropInUnwind | TrackForget => track = false,
                    _ => {}
                }
                ops.push(op);
                break;
            }
        }
        for _ in 0..incs {
            ops.push(Dec);
        }
        threads.push(ops);
    }
    AProg { threads, panic_in_drop, detached, shared }
}

/// all 2-thread programs with <= k handle ops per thread over the core alphabet
pub fn enumerate(k: usize) -> Vec<AProg> {
    use AOp::*;
    let al = [Clone, Drop, Count, GetMut];
    fn lists(al: &[AOp], k: usize) -> Vec<Vec<AOp>> {
        let mut out: Vec<Vec<AOp>> = vec![vec![]];
        let mut frontier: Vec<Vec<AOp>> = vec![vec![]];
        for _ in 0..k {
            let mut nf = vec![];
            for l in &frontier {
                for o in al {
                    let mut l2 = l.clone();
                    l2.push(*o);
                    nf.push(l2);
                }
            }
            out.extend(nf.iter().cloned());
            frontier = nf;
        }
        out
    }
    let ok = |l: &Vec<AOp>| {
        let mut held = 1i32;
        for o in l {
            match o {
                Clone => {
                    if held == 0 {
                        return false;
                    }
                    held += 1
                }
                Drop => {
                    if held == 0 {
                        return false;
                    }
                    held -= 1
                }
                _ => {
                    if held == 0 {
                        return false;
                    }
                }
            }
        }
        true
    };
    let ls: Vec<Vec<AOp>> = lists(&al, k).into_iter().filter(ok).collect();
    let mut v = Vec::new();
    for a in &ls {
        for b in &ls {
            if !b.is_empty() {
                v.push(AProg { threads: vec![a.clone(), b.clone()], panic_in_drop: false, detached: false, shared: false });
            }
        }
    }
    v
}

// ---------------------------------------------------------------------------------------------
// Interpreter
// ---------------------------------------------------------------------------------------------

struct Payload {
    _owned: loom::alloc::Track<u8>,
    cell: loom::cell::UnsafeCell<u64>,
    drops: SArc<std::sync::atomic::AtomicUsize>,
    panic_in_drop: bool,
}
unsafe impl Sync for Payload {}
unsafe impl Send for Payload {}
impl Drop for Payload {
    fn drop(&mut self) {
        self.drops.fetch_add(1, std::sync::atomic::Ordering::SeqCst);
        // the final drop writes the payload: every earlier drop of a handle must happen-before it
        self.cell.with_mut(|p| unsafe { std::ptr::write_volatile(p, 2) });
        if self.panic_in_drop && !std::thread::panicking() {
            panic!("{}drop", USER_PANIC_PREFIX);
        }
    }
}

/// owned by a thread-local that only the destructor of a detached child's return value touches
struct RetTl {
    _arc: loom::sync::Arc<u32>,
    _track: loom::alloc::Track<u32>,
}
loom::thread_local! {
    static TL_RET: RetTl = RetTl { _arc: loom::sync::Arc::new(0), _track: loom::alloc::Track::new(0) };
}
struct RetGuard(bool);
impl Drop for RetGuard {
    fn drop(&mut self) {
        if self.0 {
            let _ = TL_RET.try_with(|_| ());
        }
    }
}

#[derive(Default)]
struct Iter {
    log: Vec<(u8, u8, i64)>,
    res: Vec<Vec<i64>>,
    handed: Handed,
}

/// handles given to main (`HandOver`); whatever is left when the iteration's record is discarded (a failed execution) is
/// forgotten: a loom handle cannot be released outside its execution
#[derive(Default)]
struct Handed(Vec<loom::sync::Arc<Payload>>);
impl Drop for Handed {
    fn drop(&mut self) {
        for h in self.0.drain(..) {
            std::mem::forget(h);
        }
    }
}

fn exec(p: &AProg, t: usize, first: loom::sync::Arc<Payload>, track: loom::alloc::Track<u32>, flag: &loom::sync::atomic::AtomicUsize, it: &SM<Iter>, g: &Option<SArc<loom::sync::Arc<Payload>>>) {
    use loom::sync::Arc;
    let mut hs: Vec<Arc<Payload>> = vec![first];
    let mut track = Some(track);
    for (pc, op) in p.threads[t].iter().enumerate() {
        let mut res = i64::MIN;
        match op {
            AOp::Clone => {
                let c = hs.last().unwrap().clone();
                hs.push(c);
            }
            AOp::Drop => {
                // read the payload through the handle about to be dropped (hb witness for the final drop)
                hs.last().unwrap().cell.with(|p| unsafe { std::ptr::read_volatile(p) });
                let h = hs.pop().unwrap();
                drop(h);
            }
            AOp::RawDrop => {
                hs.last().unwrap().cell.with(|p| unsafe { std::ptr::read_volatile(p) });
                let raw = Arc::into_raw(hs.pop().unwrap());
                unsafe { Arc::decrement_strong_count(raw) };
            }
            AOp::Count => res = Arc::strong_count(hs.last().unwrap()) as i64,
            AOp::CountShared => res = Arc::strong_count(&**g.as_ref().unwrap()) as i64,
            AOp::CloneShared => hs.push(Arc::clone(&**g.as_ref().unwrap())),
            AOp::IncShared => unsafe { Arc::increment_strong_count(Arc::as_ptr(&**g.as_ref().unwrap())) },
            AOp::HandOver => {
                let h = hs.pop().unwrap();
                it.lock().unwrap().handed.0.push(h);
            }
            AOp::GetMut => {
                // a successful get_mut hands out `&mut`: write through it (the earlier owners' reads — every Drop reads the
                // payload first — must happen-before it)
                res = match Arc::get_mut(hs.last_mut().unwrap()) {
                    Some(p) => {
                        p.cell.with_mut(|c| unsafe { std::ptr::write_volatile(c, 3) });
                        1
                    }
                    None => 0,
                };
            }
            AOp::TryUnwrap => {
                let h = hs.pop().unwrap();
                match Arc::try_unwrap(h) {
                    Ok(pl) => {
                        res = 1;
                        drop(pl);
                    }
                    Err(h) => {
                        res = 0;
                        hs.push(h);
                    }
                }
            }
            AOp::TryUnwrapForget => {
                let h = hs.pop().unwrap();
                match Arc::try_unwrap(h) {
                    Ok(pl) => {
                        res = 1;
                        std::mem::forget(pl);
                    }
                    Err(h) => {
                        res = 0;
                        hs.push(h);
                    }
                }
            }
            AOp::PtrEq => res = Arc::ptr_eq(hs.last().unwrap(), &hs[0]) as i64,
            AOp::RawRound => {
                let h = hs.pop().unwrap();
                let raw = Arc::into_raw(h);
                hs.push(unsafe { Arc::from_raw(raw) });
            }
            AOp::Inc => unsafe { Arc::increment_strong_count(Arc::as_ptr(hs.last().unwrap())) },
            AOp::Dec => unsafe { Arc::decrement_strong_count(Arc::as_ptr(hs.last().unwrap())) },
            AOp::Forget => std::mem::forget(hs.pop().unwrap()),
            AOp::SetFlag => flag.store(1, std::sync::atomic::Ordering::SeqCst),
            AOp::DropOrForgetIfFlag => {
                let f = flag.load(std::sync::atomic::Ordering::SeqCst);
                res = f as i64;
                let h = hs.pop().unwrap();
                if f == 1 {
                    std::mem::forget(h)
                } else {
                    drop(h)
                }
            }
            AOp::ReadPayload => {
                hs.last().unwrap().cell.with(|p| unsafe { std::ptr::read_volatile(p) });
            }
            AOp::TrackDrop => drop(track.take()),
            AOp::TrackDropInUnwind => {
                // released by a destructor that runs while the thread unwinds from a panic the program itself catches
                let t = track.take();
                let _ = std::panic::catch_unwind(std::panic::AssertUnwindSafe(move || {
                    let _owned = t;
                    panic!("{}caught-by-the-program", USER_PANIC_PREFIX);
                }));
            }
            AOp::AllocDeallocInUnwind => {
                struct Block(*mut u8, std::alloc::Layout);
                impl Drop for Block {
                    fn drop(&mut self) {
                        unsafe { loom::alloc::dealloc(self.0, self.1) }
                    }
                }
                let l = std::alloc::Layout::from_size_align(16, 8).unwrap();
                let b = Block(unsafe { loom::alloc::alloc(l) }, l);
                let _ = std::panic::catch_unwind(std::panic::AssertUnwindSafe(move || {
                    let _owned = b;
                    panic!("{}caught-by-the-program", USER_PANIC_PREFIX);
                }));
            }
            AOp::TrackForget => std::mem::forget(track.take()),
            AOp::AllocDealloc => unsafe {
                let l = std::alloc::Layout::from_size_align(16, 8).unwrap();
                let ptr = loom::alloc::alloc(l);
                std::ptr::write_volatile(ptr, 7u8);
                loom::alloc::dealloc(ptr, l);
            },
            AOp::AllocLeak => unsafe {
                let l = std::alloc::Layout::from_size_align(16, 8).unwrap();
                let ptr = loom::alloc::alloc(l);
                std::ptr::write_volatile(ptr, 7u8);
            },
        }
        let mut s = it.lock().unwrap();
        if res != i64::MIN {
            s.res[t].push(res);
        }
        s.log.push((t as u8, pc as u8, if res == i64::MIN { 0 } else { res }));
    }
    while let Some(h) = hs.pop() {
        drop(h);
    }
    drop(track);
}

pub struct ARun {
    pub outcomes: BTreeSet<ATerm>,
    pub iters: usize,
    pub events: usize,
    pub panic: Option<String>,
    pub panic_file: String,
    pub replay_errors: Vec<String>,
    pub drop_errors: Vec<String>,
    pub hook_calls: usize,
}

pub fn run_loom(p: &AProg, iter_cap: usize) -> ARun {
    struct Acc {
        outcomes: BTreeSet<ATerm>,
        events: usize,
        replay_errors: Vec<String>,
        drop_errors: Vec<String>,
        hook_calls: usize,
    }
    let acc = SArc::new(SM::new(Acc { outcomes: BTreeSet::new(), events: 0, replay_errors: vec![], drop_errors: vec![], hook_calls: 0 }));
    let it: SArc<SM<Iter>> = SArc::new(SM::new(Iter::default()));
    let drops = SArc::new(std::sync::atomic::AtomicUsize::new(0));
    let iters = SArc::new(std::sync::atomic::AtomicUsize::new(0));
    let p2 = SArc::new(p.clone());
    {
        let (a2, it2, p3, d2) = (acc.clone(), it.clone(), p2.clone(), drops.clone());
        loom::verif::set_iteration_hook(Some(Box::new(move |_| {
            let s = std::mem::take(&mut *it2.lock().unwrap());
            let mut a = a2.lock().unwrap();
            a.hook_calls += 1;
            a.events += s.log.len();
            if a.replay_errors.len() < 3 {
                if let Err(e) = replay(&p3, &s.log) {
                    a.replay_errors.push(format!("{} ; log = {:?}", e, s.log));
                }
            }
            // the hook runs before loom's leak check: a completed iteration of a non-leaking program dropped the payload exactly once
            let d = d2.swap(0, std::sync::atomic::Ordering::SeqCst);
            a.outcomes.insert(ATerm::Done(s.res));
            if d > 1 && a.drop_errors.len() < 3 {
                a.drop_errors.push(format!("payload dropped {} times in one iteration; log = {:?}", d, s.log));
            }
            a.hook_calls += 0;
            let _ = d;
        })));
    }
    let (i2, it3, d3) = (iters.clone(), it.clone(), drops.clone());
    let res = std::panic::catch_unwind(std::panic::AssertUnwindSafe(|| {
        let mut b = loom::model::Builder::new();
        b.max_branches = 5000;
        b.check(move || {
            let n = p2.threads.len();
            if i2.fetch_add(1, std::sync::atomic::Ordering::Relaxed) >= iter_cap {
                panic!("{}", ITER_CAP_MSG);
            }
            {
                let mut s = it3.lock().unwrap();
                *s = Iter::default();
                s.res = vec![vec![]; n];
            }
            d3.store(0, std::sync::atomic::Ordering::SeqCst);
            let flag = SArc::new(loom::sync::atomic::AtomicUsize::new(0));
            let a = loom::sync::Arc::new(Payload { _owned: loom::alloc::Track::new(0), cell: loom::cell::UnsafeCell::new(1), drops: d3.clone(), panic_in_drop: p2.panic_in_drop });
            // every handle and tracked value a child owns is created before the first spawn
            let clones: Vec<_> = (1..n).map(|_| a.clone()).collect();
            let g: Option<SArc<loom::sync::Arc<Payload>>> = if p2.shared { Some(SArc::new(a.clone())) } else { None };
            let tracks: Vec<_> = (0..n).map(|i| loom::alloc::Track::new(i as u32)).collect();
            let mut tracks = tracks.into_iter();
            let t0 = tracks.next().unwrap();
            let mut hs = Vec::new();
            for ((t, c), tr) in (1..n).zip(clones).zip(tracks) {
                let (p3, f3, it4, g2) = (p2.clone(), flag.clone(), it3.clone(), g.clone());
                hs.push(loom::thread::spawn(move || {
                    exec(&p3, t, c, tr, &f3, &it4, &g2);
                    RetGuard(p3.detached)
                }));
            }
            if p2.detached {
                hs.clear();
            }
            exec(&p2, 0, a, t0, &flag, &it3, &g);
            for h in hs {
                h.join().unwrap();
            }
            let handed = std::mem::take(&mut it3.lock().unwrap().handed.0);
            for h in handed {
                drop(h);
            }
            if let Some(g) = &g {
                for _ in 0..p2.threads.iter().flatten().filter(|o| **o == AOp::IncShared).count() {
                    unsafe { loom::sync::Arc::decrement_strong_count(loom::sync::Arc::as_ptr(&**g)) };
                }
            }
            drop(g);
        });
    }));
    loom::verif::set_iteration_hook(None);
    let panic = res.err().map(panic_msg);
    let panic_file = if panic.is_some() { last_panic_file() } else { String::new() };
    let last = std::mem::take(&mut *it.lock().unwrap());
    let mut a = acc.lock().unwrap();
    let mut replay_errors = std::mem::take(&mut a.replay_errors);
    if panic.is_some() && !last.log.is_empty() {
        if let Err(e) = replay(p, &last.log) {
            replay_errors.push(format!("(failing iteration) {} ; log = {:?}", e, last.log));
        }
    }
    ARun { outcomes: std::mem::take(&mut a.outcomes), iters: iters.load(std::sync::atomic::Ordering::Relaxed), events: a.events + last.log.len(), panic, panic_file, replay_errors, drop_errors: std::mem::take(&mut a.drop_errors), hook_calls: a.hook_calls }
}

// ---------------------------------------------------------------------------------------------
// Jobs and judge
// ---------------------------------------------------------------------------------------------

fn core(tier: u8) -> &'static Vec<AProg> {
    static Q: std::sync::OnceLock<Vec<AProg>> = std::sync::OnceLock::new();
    static T: std::sync::OnceLock<Vec<AProg>> = std::sync::OnceLock::new();
    let build = |k: usize| {
        use AOp::*;
        let mut v = enumerate(k);
        let ap = |threads: Vec<Vec<AOp>>| AProg { threads, panic_in_drop: false, detached: false, shared: false };
        v.push(ap(vec![vec![Count, Drop], vec![Drop]]));
        v.push(ap(vec![vec![TryUnwrap], vec![Drop]]));
        v.push(ap(vec![vec![TryUnwrap], vec![TryUnwrap]]));
        v.push(ap(vec![vec![GetMut, Drop], vec![Clone, Drop, Drop]]));
        v.push(ap(vec![vec![Forget], vec![Drop]]));
        v.push(ap(vec![vec![TryUnwrapForget], vec![Drop]]));
        v.push(ap(vec![vec![Drop], vec![TryUnwrapForget]]));
        v.push(ap(vec![vec![TryUnwrapForget], vec![Count, Drop], vec![Drop]]));
        v.push(ap(vec![vec![SetFlag], vec![DropOrForgetIfFlag]]));
        v.push(ap(vec![vec![Inc, Count, Dec], vec![Count, Drop]]));
        v.push(ap(vec![vec![RawRound, Count], vec![RawRound, Drop]]));
        // a reference given back through the raw pointer is an ordinary release: whichever release is last destroys the
        // payload, after everything the other owners did
        v.push(ap(vec![vec![RawDrop], vec![Drop]]));
        v.push(ap(vec![vec![RawDrop], vec![RawDrop]]));
        v.push(ap(vec![vec![Clone, RawDrop, Count], vec![Count, RawDrop]]));
        v.push(ap(vec![vec![RawDrop], vec![Clone, Drop, Count, Drop]]));
        v.push(ap(vec![vec![RawDrop], vec![Drop], vec![RawDrop]]));
        // one handle reached by reference from every thread (an `Arc` field of a shared structure): inspections and clones
        // of it from different threads are dependent operations, also when it is the only handle left
        for th in [vec![vec![Drop, CountShared], vec![Drop, CloneShared, Drop]], vec![vec![Drop, CountShared], vec![Drop, CloneShared]], vec![vec![Drop, CountShared, CountShared], vec![Drop, CloneShared, Drop]], vec![vec![Drop, CloneShared, Count, Drop], vec![Drop, CountShared]], vec![vec![CountShared], vec![CloneShared, Drop]], vec![vec![Drop, CountShared], vec![Drop, CloneShared, Drop], vec![Drop, CloneShared, Drop]]] {
            v.push(AProg { threads: th, panic_in_drop: false, detached: false, shared: true });
        }
        // an inspection races with an increment whose thread releases nothing afterwards (the reference it obtained is
        // given back by main after the joins): both orders have to be explored from either side
        for th in [vec![vec![CountShared], vec![HandOver, IncShared]], vec![vec![Count], vec![HandOver, IncShared]], vec![vec![HandOver, IncShared], vec![HandOver, CountShared]], vec![vec![CountShared, CountShared], vec![HandOver, IncShared], vec![HandOver, IncShared]], vec![vec![GetMut], vec![HandOver, CloneShared, HandOver]], vec![vec![Drop, CountShared], vec![HandOver, CloneShared, HandOver]]] {
            let mut th = th;
            // (main keeps its own handle: `HandOver` is an operation of the children)
            if th[0].first() == Some(&HandOver) {
                th[0].remove(0);
            }
            v.push(AProg { threads: th, panic_in_drop: false, detached: false, shared: true });
        }
        for th in [vec![vec![CountShared], vec![IncShared]], vec![vec![IncShared], vec![CountShared]], vec![vec![Drop, CountShared], vec![Drop, IncShared]], vec![vec![Count], vec![IncShared], vec![IncShared]], vec![vec![GetMut], vec![Drop, IncShared]], vec![vec![IncShared, Count], vec![Count, IncShared]]] {
            v.push(AProg { threads: th, panic_in_drop: false, detached: false, shared: true });
        }
        v.push(ap(vec![vec![TrackForget], vec![TrackDrop]]));
        v.push(ap(vec![vec![AllocLeak], vec![AllocDealloc]]));
        // released while the thread unwinds from a panic the program catches itself: not a leak
        v.push(ap(vec![vec![TrackDropInUnwind], vec![TrackDrop]]));
        v.push(ap(vec![vec![AllocDeallocInUnwind, Drop], vec![TrackDropInUnwind, Drop]]));
        v.push(ap(vec![vec![TrackDropInUnwind, Count], vec![TrackForget, Drop]]));
        // get_mut succeeds after the other owners dropped their handles in other threads, without any join
        v.push(ap(vec![vec![GetMut, GetMut, Drop], vec![Drop]]));
        v.push(ap(vec![vec![GetMut, Drop], vec![Drop], vec![Drop]]));
        v.push(ap(vec![vec![Count, GetMut, Drop], vec![ReadPayload, Drop]]));
        // detached children whose unclaimed return value is the first user of a thread-local owning tracked objects: the
        // thread destroys it before it is done, nothing leaks
        for th in [vec![vec![Drop], vec![Drop]], vec![vec![Count], vec![Clone, Drop], vec![Drop]], vec![vec![], vec![TrackDrop]], vec![vec![TryUnwrap], vec![Count]]] {
            v.push(AProg { threads: th, panic_in_drop: false, detached: true, shared: false });
        }
        v.push(AProg { threads: vec![vec![Drop], vec![Drop]], panic_in_drop: true, detached: false, shared: false });
        v.push(AProg { threads: vec![vec![Count], vec![Clone, Drop]], panic_in_drop: true, detached: false, shared: false });
        v
    };
    if tier == 0 {
        Q.get_or_init(|| build(2))
    } else {
        T.get_or_init(|| build(3))
    }
}

pub fn n_random(prop: &str, tier: u8) -> usize {
    match (prop, tier) {
        ("C06", 0) => 300,
        ("C06", _) => 8000,
        // C01 runs the Arc programs for their completeness clause only (handles are one more kind of shared object)
        ("C01", 0) => 400,
        ("C01", _) => 4000,
        (_, 0) => 1200,
        (_, _) => 12_000,
    }
}

pub fn total(prop: &str, tier: u8) -> usize {
    core(tier).len() + n_random(prop, tier)
}

pub fn prog_at(prop: &str, tier: u8, seed: u64, idx: usize) -> AProg {
    let c = core(tier);
    if idx < c.len() {
        let mut p = c[idx].clone();
        if prop == "C06" && idx % 3 == 0 {
            p.panic_in_drop = true;
        }
        return p;
    }
    let mut rng = Rng::new(seed, (idx - c.len()) as u64 ^ fnv(prop) ^ 0xA5C);
    let leaks = prop == "C10" || (prop == "C06" && rng.chance(1, 3));
    gen(&mut rng, leaks, prop == "C06", tier)
}

fn fmt_terms(s: &BTreeSet<ATerm>, max: usize) -> String {
    let mut v: Vec<String> = s.iter().take(max).map(|o| format!("{:?}", o)).collect();
    if s.len() > max {
        v.push(format!("…(+{})", s.len() - max));
    }
    v.join(" ")
}

pub fn judge(p: &AProg, rec: &mut Rec, tier: u8, verbose: bool) {
    rec.hash = p.hash();
    rec.prog = p.s();
    rec.extra = json!({"family": "arc"});
    let r = match reference(p, 400_000) {
        Some(r) => r,
        None => {
            rec.status = "inconclusive:reference-budget".into();
            return;
        }
    };
    let l = run_loom(p, if tier == 0 { 40_000 } else { 200_000 });
    rec.runs = 1;
    rec.iters = l.iters as u64;
    rec.events = l.events as u64;
    rec.outcomes = l.outcomes.len() as u64;
    for e in &l.replay_errors {
        rec.v("replay_invalid", "", e.clone());
    }
    for e in &l.drop_errors {
        rec.v("drop_count", "", e.clone());
    }
    let observed = l.panic.as_ref().map(|m| classify(m));
    if observed == Some(PanicKind::IterCap) {
        rec.status = "inconclusive:iteration-cap".into();
        return;
    }
    let mut expected: Vec<PanicKind> = vec![];
    if r.terms.contains(&ATerm::LeakArc) {
        expected.push(PanicKind::LeakArc);
    }
    if r.terms.contains(&ATerm::LeakAlloc) {
        expected.push(PanicKind::LeakAlloc);
    }
    if r.terms.contains(&ATerm::Failed) {
        expected.push(PanicKind::User("drop".into()));
    }
    let dones: BTreeSet<ATerm> = r.terms.iter().filter(|t| matches!(t, ATerm::Done(_))).cloned().collect();
    let detail = |what: &str| format!("{} ; reference terminals: {} ; loom: {:?} after {} iterations", what, fmt_terms(&r.terms, 6), l.panic.as_ref().map(|m| m.lines().next().unwrap_or("").to_string()), l.iters);
    match (&observed, expected.is_empty()) {
        (None, true) => {
            let miss: BTreeSet<_> = dones.difference(&l.outcomes).cloned().collect();
            let extra: BTreeSet<_> = l.outcomes.difference(&dones).cloned().collect();
            if !miss.is_empty() {
                rec.v("missing_outcome", "", format!("results never produced: {} ; loom produced {} in {} iterations", fmt_terms(&miss, 4), fmt_terms(&l.outcomes, 8), l.iters));
            }
            if !extra.is_empty() {
                rec.v("extra_outcome", "", format!("results the reference-count machine cannot produce: {} ; reference: {}", fmt_terms(&extra, 4), fmt_terms(&dones, 8)));
            }
        }
        (None, false) => {
            for k in &expected {
                let clause = match k {
                    PanicKind::LeakArc | PanicKind::LeakAlloc => "missed_leak",
                    _ => "missed_failure",
                };
                rec.v(clause, k.short(), detail(&format!("the reference reaches {} but loom::model returned normally", k.short())));
            }
        }
        (Some(k), _) => {
            if !expected.contains(k) {
                let clause = match k {
                    PanicKind::LeakArc | PanicKind::LeakAlloc | PanicKind::LeakMsgs => "false_leak",
                    PanicKind::Causality => "false_race",
                    PanicKind::Deadlock => "false_deadlock",
                    PanicKind::LoomInternal(_) => "loom_internal_panic",
                    PanicKind::User(_) => "false_failure",
                    _ => "unexpected_panic",
                };
                rec.v(clause, format!("{} @ {}", k.short(), l.panic_file), detail(&format!("loom reported {} which the reference cannot reach", k.short())));
            }
        }
    }
    rec.nontrivial = p.threads.iter().filter(|t| !t.is_empty()).count() >= 2 && (r.terms.len() >= 2 || l.iters >= 2);
    if !rec.viol.is_empty() {
        rec.prog_json = serde_json::to_value(p).unwrap();
    }
    if verbose || rec.idx % 199 == 0 {
        rec.extra = json!({"family": "arc", "reference_terminals": fmt_terms(&r.terms, 10), "reference_states": r.states, "loom_outcomes": fmt_terms(&l.outcomes, 10), "loom_panic": l.panic.as_ref().map(|m| m.lines().next().unwrap_or("").to_string())});
    }
}

pub fn work(prop: &str, tier: u8, seed: u64, idx: usize) -> Rec {
    let mut rec = Rec::new(idx);
    let p = prog_at(prop, tier, seed, idx);
    judge(&p, &mut rec, tier, false);
    rec
}

pub fn describe_died(prop: &str, tier: u8, seed: u64, idx: usize, status: &str) -> Rec {
    let mut rec = Rec::new(idx);
    let p = prog_at(prop, tier, seed, idx);
    rec.hash = p.hash();
    rec.prog = p.s();
    rec.prog_json = serde_json::to_value(&p).unwrap();
    rec.extra = json!({"family": "arc"});
    rec.nontrivial = true;
    rec.v("process_died", "died", format!("the worker process died ({}) while loom::model ran this program", status));
    rec
}

// ---------------------------------------------------------------------------------------------
// C04, Arc part: which Arc operations are synchronisation edges
// ---------------------------------------------------------------------------------------------
// One thread accesses a cell inside the payload and releases its handle; a second thread, once it KNOWS (through a
// relaxed flag, which orders nothing) that the handle is gone, performs one Arc operation on its own handle and
// accesses the cell. Whether the two accesses race is decided by that operation alone: the reference count is an
// atomic, a handle release is a Release decrement, and only the operations that `std` performs with Acquire (the last
// decrement, a successful try_unwrap) are edges. The table below keeps to the cases that are the same under every
// reading of the memory model (an RMW that observes the decrement + Acquire: ordered; no Acquire anywhere: race).

#[derive(Clone, Copy, Debug, PartialEq)]
enum Gate {
    Nothing,
    TryUnwrapFails,
    CloneThenDrop,
    IncThenDec,
    TryUnwrapSucceeds,
}
const GATES: [Gate; 5] = [Gate::Nothing, Gate::TryUnwrapFails, Gate::CloneThenDrop, Gate::IncThenDec, Gate::TryUnwrapSucceeds];

struct GatePayload {
    cell: loom::cell::UnsafeCell<u32>,
}
unsafe impl Sync for GatePayload {}
unsafe impl Send for GatePayload {}

pub fn gate_total() -> usize {
    GATES.len() * 4 + 4
}

/// `Atomic::with_mut` lasts for the whole closure, like an UnsafeCell access: a flag released from inside the closure does
/// not order the end of the access before the thread that acquires the flag.
fn withmut_probe(idx: usize, kind: usize) -> Rec {
    use loom::sync::atomic::{AtomicUsize, Ordering::*};
    let mut rec = Rec::new(idx);
    let inside = kind < 2;
    let reader = ["load(Relaxed)", "unsync_load()", "load(Relaxed)", "unsync_load()"][kind];
    rec.prog = if inside { format!("a.with_mut(|v| {{ flag.store(1, Release); *v = 5 }})  ||  if flag.load(Acquire) == 1 {{ a.{} }}", reader) } else { format!("a.with_mut(|v| *v = 5); flag.store(1, Release)  ||  if flag.load(Acquire) == 1 {{ a.{} }}", reader) };
    rec.hash = fnv(&rec.prog);
    rec.extra = json!({"family": "arcgate"});
    let reached = SArc::new(std::sync::atomic::AtomicUsize::new(0));
    let iters = SArc::new(std::sync::atomic::AtomicUsize::new(0));
    let (r2, i2) = (reached.clone(), iters.clone());
    let res = std::panic::catch_unwind(std::panic::AssertUnwindSafe(|| {
        loom::model::Builder::new().check(move || {
            if i2.fetch_add(1, SeqCst) >= 50_000 {
                panic!("{}", ITER_CAP_MSG);
            }
            let a = SArc::new(AtomicUsize::new(0));
            let flag = SArc::new(AtomicUsize::new(0));
            let (a1, f1) = (a.clone(), flag.clone());
            let t1 = loom::thread::spawn(move || {
                // exclusive access is the program's claim (it is wrong when the flag is published from inside the closure)
                let m: &mut AtomicUsize = unsafe { &mut *(SArc::as_ptr(&a1) as *mut AtomicUsize) };
                if inside {
                    m.with_mut(|v| {
                        f1.store(1, Release);
                        *v = 5;
                    });
                } else {
                    m.with_mut(|v| *v = 5);
                    f1.store(1, Release);
                }
            });
            let r3 = r2.clone();
            let t2 = loom::thread::spawn(move || {
                if flag.load(Acquire) == 1 {
                    r3.fetch_add(1, SeqCst);
                    if kind % 2 == 0 {
                        a.load(Relaxed);
                    } else {
                        unsafe { a.unsync_load() };
                    }
                }
            });
            t1.join().unwrap();
            t2.join().unwrap();
        });
    }));
    rec.runs = 1;
    rec.iters = iters.load(std::sync::atomic::Ordering::SeqCst) as u64;
    rec.events = reached.load(std::sync::atomic::Ordering::SeqCst) as u64;
    let panic = res.err().map(panic_msg);
    match panic.as_ref().map(|m| classify(m)) {
        Some(PanicKind::IterCap) => rec.status = "inconclusive:iteration-cap".into(),
        Some(PanicKind::Causality) => {
            if !inside {
                rec.v("false_race", "", format!("the flag is released after with_mut has returned: the accesses are ordered, yet loom reports {}", panic.clone().unwrap_or_default().lines().next().unwrap_or("")));
            }
        }
        Some(k) => rec.v("unexpected_panic", format!("{} @ {}", k.short(), last_panic_file()), panic.clone().unwrap_or_default()),
        None => {
            if rec.events == 0 {
                rec.status = "inconclusive:gated-access-never-reached".into();
            } else if inside {
                rec.v("missed_race", "", format!("the reader's access was reached in {} of {} executions while the with_mut closure that released the flag was still running (its write comes after the release), yet loom::model returned normally", rec.events, rec.iters));
            }
        }
    }
    rec.nontrivial = rec.events > 0 || panic.is_some();
    rec
}

fn gate_desc(idx: usize) -> (Gate, bool, bool) {
    (GATES[idx % GATES.len()], (idx / GATES.len()) % 2 == 1, idx / GATES.len() >= 2)
}

pub fn gate_work(idx: usize) -> Rec {
    use loom::sync::atomic::{AtomicUsize, Ordering::Relaxed};
    use loom::sync::Arc;
    use std::sync::atomic::Ordering::SeqCst;
    if idx >= GATES.len() * 4 {
        return withmut_probe(idx, idx - GATES.len() * 4);
    }
    let mut rec = Rec::new(idx);
    let (gate, raw_release, writer_second) = gate_desc(idx);
    rec.prog = format!("payload cell {} ; {} ; flag.store(1, Relaxed)  ||  if flag.load(Relaxed) == 1 {{ {:?} ; payload cell {} }}{}", if writer_second { "read" } else { "write" }, if raw_release { "decrement_strong_count(into_raw(handle))" } else { "drop(handle)" }, gate, if writer_second { "write" } else { "read" }, if gate == Gate::TryUnwrapSucceeds { "" } else { "  [main holds a third handle throughout]" });
    rec.hash = fnv(&rec.prog);
    rec.extra = json!({"family": "arcgate"});
    let reached = SArc::new(std::sync::atomic::AtomicUsize::new(0));
    let iters = SArc::new(std::sync::atomic::AtomicUsize::new(0));
    let (r2, i2) = (reached.clone(), iters.clone());
    let res = std::panic::catch_unwind(std::panic::AssertUnwindSafe(|| {
        loom::model::Builder::new().check(move || {
            if i2.fetch_add(1, SeqCst) >= 50_000 {
                panic!("{}", ITER_CAP_MSG);
            }
            let a = Arc::new(GatePayload { cell: loom::cell::UnsafeCell::new(0) });
            let b = a.clone();
            let c = a.clone();
            let flag = SArc::new(AtomicUsize::new(0));
            let keep = if gate == Gate::TryUnwrapSucceeds {
                drop(a);
                None
            } else {
                Some(a)
            };
            let f1 = flag.clone();
            let t1 = loom::thread::spawn(move || {
                if writer_second {
                    b.cell.with(|p| unsafe { std::ptr::read_volatile(p) });
                } else {
                    b.cell.with_mut(|p| unsafe { std::ptr::write_volatile(p, 1) });
                }
                if raw_release {
                    unsafe { Arc::decrement_strong_count(Arc::into_raw(b)) };
                } else {
                    drop(b);
                }
                f1.store(1, Relaxed);
            });
            let (f2, r3) = (flag.clone(), r2.clone());
            let t2 = loom::thread::spawn(move || {
                let mut c = Some(c);
                if f2.load(Relaxed) == 1 {
                    let access = |pl: &GatePayload| {
                        if writer_second {
                            pl.cell.with_mut(|p| unsafe { std::ptr::write_volatile(p, 2) });
                        } else {
                            pl.cell.with(|p| unsafe { std::ptr::read_volatile(p) });
                        }
                    };
                    match gate {
                        Gate::Nothing => {}
                        Gate::TryUnwrapFails => match Arc::try_unwrap(c.take().unwrap()) {
                            Ok(_) => panic!("{}try_unwrap succeeded with a third handle alive", USER_PANIC_PREFIX),
                            Err(back) => c = Some(back),
                        },
                        Gate::CloneThenDrop => drop(c.as_ref().unwrap().clone()),
                        Gate::IncThenDec => unsafe {
                            let p = Arc::as_ptr(c.as_ref().unwrap());
                            Arc::increment_strong_count(p);
                            Arc::decrement_strong_count(p);
                        },
                        Gate::TryUnwrapSucceeds => match Arc::try_unwrap(c.take().unwrap()) {
                            Ok(pl) => {
                                r3.fetch_add(1, SeqCst);
                                access(&pl);
                            }
                            Err(_) => panic!("{}try_unwrap failed although the only other handle is known to be gone", USER_PANIC_PREFIX),
                        },
                    }
                    if let Some(h) = c.as_ref() {
                        r3.fetch_add(1, SeqCst);
                        access(h);
                    }
                }
                drop(c);
            });
            t1.join().unwrap();
            t2.join().unwrap();
            drop(keep);
        });
    }));
    rec.runs = 1;
    rec.iters = iters.load(SeqCst) as u64;
    rec.events = reached.load(SeqCst) as u64;
    let panic = res.err().map(panic_msg);
    let kind = panic.as_ref().map(|m| classify(m));
    let expect_race = gate != Gate::TryUnwrapSucceeds;
    match kind {
        Some(PanicKind::IterCap) => rec.status = "inconclusive:iteration-cap".into(),
        Some(PanicKind::Causality) => {
            if !expect_race {
                rec.v("false_race", "", format!("a successful try_unwrap observed the release of the other handle and acquires: the accesses are ordered, yet loom reports {}", panic.clone().unwrap_or_default().lines().next().unwrap_or("")));
            }
        }
        Some(k) => rec.v("unexpected_panic", format!("{} @ {}", k.short(), last_panic_file()), panic.clone().unwrap_or_default()),
        None => {
            if reached.load(SeqCst) == 0 {
                rec.status = "inconclusive:gated-access-never-reached".into();
            } else if expect_race {
                rec.v("missed_race", "", format!("the second access was reached in {} of {} executions and nothing on the way acquires what the release of the other handle published (`std`: {}), yet loom::model returned normally", reached.load(SeqCst), rec.iters, match gate {
                    Gate::Nothing => "no operation at all",
                    Gate::TryUnwrapFails => "a failing try_unwrap is a compare_exchange(1, 0, Relaxed, Relaxed) that fails",
                    Gate::CloneThenDrop => "clone is a Relaxed increment, a drop that is not the last one a Release decrement",
                    _ => "increment_strong_count / decrement_strong_count are a Relaxed increment and a Release decrement",
                }));
            }
        }
    }
    rec.nontrivial = reached.load(SeqCst) > 0 || panic.is_some();
    rec
}
