//! SYNC family: job lists and the per-program judge for the properties decided on programs over
//! the blocking primitives (C01 sync part, C04 sync part, C05, C06, C07, C08, C09, C10 messages).
use crate::common::*;
use crate::orch::*;
use crate::sync::*;
use serde_json::json;
use std::collections::BTreeSet;
use std::sync::OnceLock;

fn alphabet_for(prop: &str) -> Box<dyn Fn(usize) -> Vec<SOp>> {
    use SOp::*;
    match prop {
        "C05" => Box::new(|th| {
            let mut v = vec![Lock(0), Lock(1), Unlock(0), Unlock(1), Park, Unpark(1 - th.min(1) as u8)];
            if th == 0 {
                v.push(Join(1));
            }
            v
        }),
        "C07" => Box::new(|_| vec![Lock(0), Unlock(0), TryLock(0), Read, Write, TryRead, TryWrite, RwUnlock]),
        "C08" => Box::new(|th| {
            let mut v = vec![Park, Unpark(1 - th.min(1) as u8), Lock(0), Unlock(0), NNotify];
            if th == 0 {
                v.push(Join(1));
            }
            if th == 1 {
                v.push(NWait);
            }
            v
        }),
        "C09" => Box::new(|th| {
            if th == 0 {
                vec![Recv, TryRecv, Send(9)]
            } else {
                vec![Send(10 * th as u8 + 1), Send(10 * th as u8 + 2)]
            }
        }),
        _ => Box::new(|th| {
            // C01: one mutex, one SeqCst atomic, join
            let mut v = vec![Lock(0), Unlock(0), TryLock(0), ALoad(0), AStore(0, th as u8 + 1)];
            if th == 0 {
                v.push(Join(1));
            }
            v
        }),
    }
}

fn core(prop: &str, tier: u8) -> &'static Vec<SProg> {
    static CORES: OnceLock<std::sync::Mutex<std::collections::HashMap<String, &'static Vec<SProg>>>> = OnceLock::new();
    let key = format!("{}-{}", prop, tier);
    let map = CORES.get_or_init(|| std::sync::Mutex::new(Default::default()));
    let mut g = map.lock().unwrap();
    if let Some(v) = g.get(&key) {
        return v;
    }
    let mut v: Vec<SProg> = Vec::new();
    let al = alphabet_for(prop);
    match prop {
        "C01" => {
            v.extend(enumerate(2, if tier == 0 { 2 } else { 3 }, &*al, &well_formed));
            // channels, park/unpark and rwlock cores of the other properties are part of "every mix of object kinds"
            let ch = alphabet_for("C09");
            v.extend(enumerate(2, if tier == 0 { 2 } else { 3 }, &*ch, &|l, th| well_formed(l, th) && distinct_sends(l)));
            let pk = alphabet_for("C05");
            v.extend(enumerate(2, 2, &*pk, &well_formed));
            let lk = alphabet_for("C07");
            v.extend(enumerate(2, 2, &*lk, &well_formed));
            // a yield that finds nobody to yield to (the only other thread is blocked on the lock the yielding thread holds) is
            // over when it returns: the thread's next operations race with the other thread like any others
            for yields in [2usize, 3] {
                let mut main = vec![Lock(0), Unpark(1)];
                main.extend(std::iter::repeat(Yield).take(yields));
                main.extend([Unlock(0), TryLock(0), SkipUnlessLast(1, 1), AStore(0, 1), Unlock(0), Join(1)]);
                v.push(sp(vec![main, vec![Park, Lock(0), ALoad(0), Unlock(0)]]));
            }
            v.push(sp(vec![vec![Write, Unpark(1), Yield, Yield, RwUnlock, TryWrite, SkipUnlessLast(1, 1), AStore(0, 1), RwUnlock, Join(1)], vec![Park, Read, ALoad(0), RwUnlock]]));
            // a try_lock that fails first and succeeds once the holder - which waits inside its critical section for the
            // try-locker's message / for a third thread - has released
            v.push(sp(vec![vec![Lock(0), Recv, Unlock(0), Join(1)], vec![Send(11), TryLock(0), Unlock(0)]]));
            // ... with the try-locker released (unparked) only after the holder has the lock, as if spawned after it
            v.push(sp(vec![vec![Lock(0), Unpark(1), Recv, Unlock(0), Join(1)], vec![Park, Send(11), TryLock(0), Unlock(0)]]));
            v.push(sp(vec![vec![Lock(0), Unpark(1), Join(2), Unlock(0), Join(1)], vec![Park, TryLock(0), Unlock(0)], vec![ALoad(0)]]));
            v.push(sp(vec![vec![Lock(0), Unpark(1), NWait, Unlock(0), Join(1)], vec![Park, NNotify, TryLock(0), Unlock(0)]]));
            v.push(sp(vec![vec![Lock(0), Join(2), Unlock(0), Join(1)], vec![ALoad(0), TryLock(0), Unlock(0)], vec![AStore(0, 1)]]));
            v.push(sp(vec![vec![Lock(0), Park, Unlock(0), Join(1)], vec![Unpark(0), TryLock(0), Unlock(0)]]));
            // two readers that overlap (in different threads) and a third thread with two write-side operations:
            // a reader that joins another reader is still an access a later writer depends on
            use SOp::*;
            for t2 in [vec![TryWrite, RwUnlock, Write, RwUnlock], vec![Write, RwUnlock, TryWrite, RwUnlock], vec![TryWrite, RwUnlock, TryWrite, RwUnlock], vec![Write, RwUnlock, Write, RwUnlock]] {
                for t1 in [vec![Read, RwUnlock], vec![Read, RwUnlock, TryRead, RwUnlock], vec![TryRead, RwUnlock]] {
                    for main in [vec![Read, RwUnlock], vec![TryRead, RwUnlock]] {
                        v.push(sp(vec![main.clone(), t1.clone(), t2.clone()]));
                    }
                }
            }
        }
        "C05" => {
            v.extend(enumerate(2, 3, &*al, &well_formed));
            // three threads over the rwlock (readers queued behind writers, who is woken on release) with joins by main
            let rw: Box<dyn Fn(usize) -> Vec<SOp>> = Box::new(|th| {
                let mut a = vec![SOp::Read, SOp::Write, SOp::RwUnlock];
                if th == 0 {
                    a.extend([SOp::Join(1), SOp::Join(2)]);
                }
                a
            });
            v.extend(enumerate(3, 3, &*rw, &|l, th| well_formed(l, th) && (th == 0 || l.len() == 2)));
        }
        "C07" => v.extend(enumerate(2, if tier == 0 { 3 } else { 4 }, &*al, &well_formed)),
        "C04" => {
            // guarded blocks over one cell: every assignment of {read guard + read, write guard + write, mutex + write,
            // mutex + read} to three threads, and to two threads with two blocks each (lock hand-over edges of every kind,
            // overlapping read guards released in either order)
            use SOp::*;
            let blocks: [Vec<SOp>; 4] = [vec![Read, CellR(0), RwUnlock], vec![Write, CellW(0), RwUnlock], vec![Lock(0), CellW(0), Unlock(0)], vec![Lock(0), CellR(0), Unlock(0)]];
            for a in 0..4 {
                for b in 0..4 {
                    for c in 0..4 {
                        v.push(sp(vec![blocks[a].clone(), blocks[b].clone(), blocks[c].clone()]));
                        for d in 0..4 {
                            v.push(sp(vec![[blocks[a].clone(), blocks[b].clone()].concat(), [blocks[c].clone(), blocks[d].clone()].concat()]));
                        }
                    }
                }
            }
        }
        "C08" => v.extend(enumerate(2, 3, &*al, &well_formed)),
        "C09" => {
            v.extend(enumerate(2, 3, &*al, &|l, th| well_formed(l, th) && (th == 0 || l.len() <= 2) && distinct_sends(l)));
            v.extend(enumerate(3, 2, &*al, &|l, th| well_formed(l, th) && distinct_sends(l)));
        }
        _ => {}
    }
    // pinned shapes quoted in the property texts / known findings
    v.extend(pinned(prop));
    // deduplicate
    let mut seen = std::collections::HashSet::new();
    v.retain(|p| seen.insert(p.s()));
    let leaked: &'static Vec<SProg> = Box::leak(Box::new(v));
    g.insert(key, leaked);
    leaked
}

fn distinct_sends(l: &[SOp]) -> bool {
    let mut seen = std::collections::HashSet::new();
    l.iter().all(|o| if let SOp::Send(i) = o { seen.insert(*i) } else { true })
}

impl SProg {
    pub fn with_rx_owner(mut self, owner: u8) -> SProg {
        self.rx_owner = owner;
        self
    }
    fn with_rx(mut self, owner: u8) -> SProg {
        self.rx_owner = owner;
        self
    }
}

fn sp(threads: Vec<Vec<SOp>>) -> SProg {
    SProg { threads, loom_arc: false, forget_rx: false, rx_owner: 0 }
}

pub fn pinned(prop: &str) -> Vec<SProg> {
    use SOp::*;
    let mut v = Vec::new();
    match prop {
        "C05" | "C08" => {
            // condvar with waiters that are known to be waiting (each sets its flag under the mutex, main spins on the
            // flags and then passes through the mutex): notify_one twice / notify_all must release both
            let waiter = |flag: u8| vec![Lock(0), AStore(flag, 1), CvWait, Unlock(0)];
            for notes in [vec![NotifyOne, NotifyOne], vec![NotifyAll], vec![NotifyOne, NotifyAll], vec![NotifyOne]] {
                let mut main = vec![AwaitA(0, 1), AwaitA(1, 1), Lock(0), Unlock(0)];
                main.extend(notes);
                main.extend([Join(1), Join(2)]);
                v.push(sp(vec![main, waiter(0), waiter(1)]));
            }
            // a lock-order inversion whose second party is released by a third thread (a message, an unpark, a notification,
            // a thread exit): the deadlock is reachable only when the gate opens while the first party sits between its locks
            let inv_a = vec![Lock(0), Lock(1), Unlock(1), Unlock(0)];
            let inv_b = |gate: SOp| vec![gate, Lock(1), Lock(0), Unlock(0), Unlock(1)];
            for (gate, opener) in [(Recv, vec![Send(1)]), (Park, vec![Unpark(0)]), (NWait, vec![NNotify]), (Join(2), vec![AStore(0, 1)]), (Recv, vec![AStore(0, 1), Send(1)])] {
                v.push(sp(vec![inv_b(gate), inv_a.clone(), opener.clone()]));
                // control: the same order on both sides cannot deadlock
                v.push(sp(vec![vec![gate, Lock(0), Lock(1), Unlock(1), Unlock(0)], inv_a.clone(), opener]));
            }
            // a deadlock that needs a try_lock to FAIL (the thread parks for good only then)
            v.push(sp(vec![vec![TryLock(0), SkipUnlessLast(0, 1), Park, Unlock(0)], vec![Lock(0), Unlock(0)]]));
            v.push(sp(vec![vec![Lock(0), Unlock(0), Join(1)], vec![TryLock(0), SkipUnlessLast(0, 1), Park, Unlock(0)]]));
            v.push(sp(vec![vec![TryWrite, SkipUnlessLast(0, 1), Recv, RwUnlock], vec![Read, RwUnlock]]));
            // what the notifier wrote after its unlock and before the notification is visible to the waiter it wakes (the
            // waiter is known to be waiting: it raised its flag under the mutex, the notifier passed through the mutex)
            for note in [NotifyOne, NotifyAll] {
                v.push(sp(vec![vec![AwaitA(0, 1), Lock(0), Unlock(0), CellW(0), note, Join(1)], vec![Lock(0), AStore(0, 1), CvWait, Unlock(0), CellR(0)]]));
                v.push(sp(vec![vec![AwaitA(0, 1), Lock(0), Unlock(0), CellW(0), note, Join(1)], vec![Lock(0), AStore(0, 1), CvWait, CellW(0), Unlock(0)]]));
            }
            // the textbook predicate loop (`while counter < n { wait }`): such programs can always make progress, whoever
            // notifies, under the lock or after releasing it, in one round or two
            let round_unlocked = |note: SOp| vec![Lock(0), Incr(0), Unlock(0), note];
            let round_locked = |note: SOp| vec![Lock(0), Incr(0), note, Unlock(0)];
            for note in [NotifyOne, NotifyAll] {
                for locked in [false, true] {
                    let round = |n: SOp| if locked { round_locked(n) } else { round_unlocked(n) };
                    v.push(sp(vec![vec![Lock(0), CvWaitUntil(2), Unlock(0), Join(1)], [round(note), round(note)].concat()]));
                    v.push(sp(vec![vec![Lock(0), CvWaitUntil(2), Unlock(0), Join(1), Join(2)], round(note), round(note)]));
                    v.push(sp(vec![vec![Lock(0), CvWaitUntil(1), Unlock(0), Join(1)], round(note)]));
                }
            }
            v.push(sp(vec![[round_unlocked(NotifyAll), vec![Join(1), Join(2)]].concat(), vec![Lock(0), CvWaitUntil(1), Unlock(0)], vec![Lock(0), CvWaitUntil(1), Unlock(0)]]));
            // the wait-then-check loop: wait again only while the flag is not seen. A notification stored before the wait is not
            // lost by the spurious return, so the second wait cannot block (the flag is relaxed: after the spurious return the
            // waiter may still read the old value)
            v.push(sp(vec![vec![RStore(0, 1), NNotify, Join(1)], vec![NWait, RLoad(0), SkipUnlessLast(0, 1), NWait]]));
            v.push(sp(vec![vec![NWait, RLoad(0), SkipUnlessLast(0, 1), NWait, Join(1)], vec![RStore(0, 1), NNotify]]));
            v.push(sp(vec![vec![RStore(0, 1), NNotify, Join(1)], vec![NWait, RLoad(0), SkipUnlessLast(0, 3), NWait, RLoad(0), SkipUnlessLast(0, 1), NWait]]));
            v.push(sp(vec![vec![RStore(0, 1), NNotify, RStore(1, 1), NNotify, Join(1)], vec![NWait, RLoad(1), SkipUnlessLast(0, 1), NWait]]));
            // loom models ONE spurious return per Notify object: with k notifications at most k + 1 waits return
            v.push(sp(vec![vec![NWait, NWait, NWait], vec![NNotify]]));
            v.push(sp(vec![vec![NWait, NWait, NWait, NWait], vec![NNotify, NNotify]]));
            v.push(sp(vec![vec![NWait, NWait, NWait, NWait], vec![NNotify], vec![NNotify]]));
            // ... in a program that never deadlocks (every notification is acknowledged through the channel before the
            // next one): with one spurious return the waiter can be one notification ahead, never two, so its final load
            // sees at least the store made before the second notification
            v.push(sp(vec![vec![NNotify, Recv, AStore(0, 1), NNotify, Recv, AStore(0, 2), NNotify, Join(1)], vec![NWait, Send(11), NWait, Send(12), NWait, ALoad(0)]]));
            v.push(sp(vec![vec![NNotify, Recv, AStore(0, 1), NNotify, Join(1)], vec![NWait, Send(11), NWait, ALoad(0)]]));
            // one waiter, notified while known to be waiting; and a notification that cannot be lost because the
            // notifier holds the mutex
            v.push(sp(vec![vec![AwaitA(0, 1), Lock(0), NotifyOne, Unlock(0), Join(1)], waiter(0)]));
            // rwlock: two readers queued behind a writer, the first one woken depends on the second
            v.push(sp(vec![vec![Read, Join(2), RwUnlock], vec![Write, RwUnlock], vec![Read, RwUnlock]]));
            v.push(sp(vec![vec![Write, RwUnlock, Join(1), Join(2)], vec![Read, Recv, RwUnlock], vec![Read, Send(21), RwUnlock]]).with_rx(1));
            v.push(sp(vec![vec![Write, RwUnlock], vec![Read, RwUnlock], vec![Read, RwUnlock], vec![Write, RwUnlock]]));
            if prop == "C08" {
                v.push(sp(vec![vec![RLoad(0), SkipUnlessLast(1, 2), Park, CellR(0)], vec![Unpark(0), CellW(0), Unpark(0), RStore(0, 1)]]));
                v.push(sp(vec![vec![RLoad(0), SkipUnlessLast(1, 4), RLoad(1), SkipUnlessLast(1, 2), Park, CellR(0)], vec![CellW(0), Unpark(0), RStore(0, 1)], vec![Unpark(0), RStore(1, 1)]]));
                v.push(sp(vec![vec![Park, CellR(0)], vec![CellW(0), Unpark(0)]]));
                v.push(sp(vec![vec![CellW(0), NNotify], vec![NWait, CellR(0)]]));
                v.push(sp(vec![vec![Join(1), CellR(0)], vec![CellW(0)]]));
            }
            // unpark of a thread blocked in join (property text C05)
            v.push(sp(vec![vec![Join(1)], vec![Unpark(0)]]));
            // park token delivered while the target waits for a mutex (property text C08)
            v.push(sp(vec![vec![Lock(0), Unpark(1), Unlock(0), Join(1)], vec![Lock(0), Unlock(0), Park]]));
            // lock-order inversion with the mutexes behind loom::sync::Arc (property text C05)
            v.push(SProg { threads: vec![vec![Lock(0), Lock(1), Unlock(1), Unlock(0)], vec![Lock(1), Lock(0), Unlock(0), Unlock(1)]], loom_arc: true, forget_rx: false, rx_owner: 0 });
            v.push(sp(vec![vec![Lock(0), Lock(1), Unlock(1), Unlock(0)], vec![Lock(1), Lock(0), Unlock(0), Unlock(1)]]));
            // two unparks coalescing before the first park
            v.push(sp(vec![vec![Unpark(1), Unpark(1), Join(1)], vec![Park, Park]]));
            // condvar: lost notification / notify_all with two waiters
            v.push(sp(vec![vec![NotifyOne, Join(1)], vec![Lock(0), CvWait, Unlock(0)]]));
            v.push(sp(vec![vec![Lock(0), Unlock(0), NotifyAll], vec![Lock(0), CvWait, Unlock(0)], vec![Lock(0), CvWait, Unlock(0)]]));
            // try_lock while another thread is about to lock (false deadlock on the pinned tree)
            v.push(sp(vec![vec![Lock(0), Unlock(0)], vec![TryLock(0), Unlock(0)]]));
        }
        "C09" | "C10" => {
            // the receiver is dropped early: what is queued is drained by its destructor, a later send gets its message
            // back (`Err(SendError(msg))`) - neither is a leak
            v.push(sp(vec![vec![DropRx, Send(1)]]));
            v.push(sp(vec![vec![DropRx, Join(1)], vec![Send(11)]]));
            v.push(sp(vec![vec![Send(1), DropRx, Send(2), Join(1)], vec![Send(11), Send(12)]]));
            v.push(sp(vec![vec![Recv, DropRx, Join(1), Join(2)], vec![Send(11)], vec![Send(21)]]));
            // the drain in the receiver's destructor obtains every queued message: each of their sends happens-before it
            // (the relaxed flag only tells the owner that the second sender's message is queued; it orders nothing)
            v.push(sp(vec![vec![RLoad(0), SkipUnlessLast(1, 2), DropRx, CellR(0), Join(1), Join(2)], vec![Send(11)], vec![CellW(0), Send(21), RStore(0, 1)]]));
            v.push(sp(vec![vec![RLoad(0), SkipUnlessLast(1, 2), DropRx, CellW(0), Join(1)], vec![Send(11), CellR(0), Send(12), RStore(0, 1)]]));
            if prop == "C10" {
                return v;
            }
            v.push(sp(vec![vec![TryRecv], vec![Send(5)]]));
            v.push(sp(vec![vec![Recv, TryRecv], vec![Send(5)], vec![Send(6)]]));
        }
        "C06" => {
            // panic before a spawned thread has ever run, objects behind loom::sync::Arc (property text C06)
            v.push(SProg { threads: vec![vec![Fail(0)], vec![ALoad(0)]], loom_arc: true, forget_rx: false, rx_owner: 0 });
            v.push(sp(vec![vec![Fail(0)], vec![ALoad(0)]]));
            v.push(sp(vec![vec![Lock(0), Fail(0), Unlock(0)], vec![Lock(0), Unlock(0)]]));
            v.push(sp(vec![vec![Join(1)], vec![Lock(0), Lock(1), Fail(1), Unlock(1), Unlock(0)]]));
            v.push(sp(vec![vec![Write, Fail(0), RwUnlock], vec![Read, RwUnlock]]));
            v.push(sp(vec![vec![Recv], vec![Fail(1)]]));
            // two failures in one execution: a thread fails, its destructor has to wait for a lock, and the holder fails too
            v.push(sp(vec![vec![Lock(0), Unpark(1), Yield, Fail(2), Unlock(0), Join(1)], vec![Park, FailDropLock(1, 0)]]));
            v.push(sp(vec![vec![Park], vec![Fail(1)]]));
            v.push(sp(vec![vec![Lock(0), CvWait, Unlock(0)], vec![Fail(1)]]));
            v.push(sp(vec![vec![Lock(0), FailInCell(0), Unlock(0)], vec![Lock(0), Unlock(0)]]));
            v.push(sp(vec![vec![Join(1)], vec![Read, FailInAtomicMut(1), RwUnlock]]));
            v.push(SProg { threads: vec![vec![Lock(0), Lock(1), Unlock(1), Unlock(0)], vec![Lock(1), Lock(0), Unlock(0), Unlock(1)]], loom_arc: true, forget_rx: false, rx_owner: 0 });
            v.push(SProg { threads: vec![vec![Send(1), Park], vec![Write, Park, RwUnlock]], loom_arc: true, forget_rx: false, rx_owner: 0 });
            // a destructor that runs during the unwind has to wait for a lock another thread holds
            v.push(sp(vec![vec![FailDropLock(0, 0)], vec![Lock(0), AStore(0, 1), Unlock(0)]]));
            // ... the assertion fails only once the other thread is inside its critical section
            // (the value 1 is visible only while the holder is between its two stores)
            v.push(sp(vec![vec![ALoad(0), SkipUnlessLast(1, 1), FailDropLock(0, 0), Join(1)], vec![Lock(0), AStore(0, 1), AStore(0, 2), Unlock(0)]]));
            v.push(sp(vec![vec![Join(1), Join(2)], vec![ALoad(0), SkipUnlessLast(1, 1), FailDropLock(1, 0)], vec![Lock(0), AStore(0, 1), AStore(0, 2), Unlock(0)]]));
            v.push(sp(vec![vec![ALoad(0), FailDropLock(0, 0), Join(1)], vec![Lock(0), AStore(0, 1), Unlock(0)]]));
            v.push(sp(vec![vec![Join(1)], vec![Lock(1), FailDropLock(1, 0), Unlock(1)], vec![Lock(0), Lock(1), Unlock(1), Unlock(0)]]));
            // the failure strikes while threads have live thread-locals whose destructors perform loom operations
            v.push(sp(vec![vec![Tls, Fail(0)]]));
            v.push(sp(vec![vec![Tls, Fail(0)], vec![Tls, ALoad(0)]]));
            v.push(sp(vec![vec![Tls, Join(1)], vec![Tls, Lock(0), Fail(1), Unlock(0)]]));
            v.push(sp(vec![vec![Tls, Recv], vec![Tls, Fail(1)]]));
            v.push(sp(vec![vec![Tls, Join(1), Join(2)], vec![Tls, ALoad(0)], vec![AStore(0, 1), Tls]]));
            // branch-limit crash points (max_branches = longest path - 1): the limit is hit by main while the other
            // thread can still run, and main's unwind drops a loom::sync::Arc (a scheduling point in a destructor)
            for loom_arc in [true, false] {
                v.push(SProg { threads: vec![vec![ALoad(0), ALoad(0), ALoad(0), ALoad(0), Join(1)], vec![AStore(0, 1), AStore(0, 2), AStore(0, 3)]], loom_arc, forget_rx: false, rx_owner: 0 });
                v.push(SProg { threads: vec![vec![Lock(0), Unlock(0), Lock(0), Unlock(0), Join(1)], vec![Lock(0), Unlock(0), Send(1)]], loom_arc, forget_rx: false, rx_owner: 0 });
                v.push(SProg { threads: vec![vec![AStore(0, 1), Join(1), Join(2)], vec![ALoad(0), ALoad(0), ALoad(0)], vec![ALoad(0), AStore(1, 1)]], loom_arc, forget_rx: false, rx_owner: 0 });
            }
        }
        "C07" => {
            v.push(sp(vec![vec![Lock(0), Incr(0), Unlock(0)], vec![Lock(0), Incr(0), Unlock(0)], vec![Lock(0), Incr(0), Unlock(0)]]));
            v.push(sp(vec![vec![Lock(0), CellW(0), Unlock(0)], vec![Lock(0), CellW(0), Unlock(0)]]));
            v.push(sp(vec![vec![Write, CellW(0), RwUnlock], vec![Read, CellR(0), RwUnlock], vec![Read, CellR(0), RwUnlock]]));
            v.push(sp(vec![vec![TryLock(0), Unlock(0)], vec![Lock(0), AStore(0, 1), Unlock(0)]]));
            // two read guards in one thread (the second taken with try_read, the first dropped afterwards): the thread is a
            // reader throughout, no writer gets in
            v.push(sp(vec![vec![TryRead, TryReadNested, RwUnlock]]));
            v.push(sp(vec![vec![Read, TryReadNested, ALoad(0), RwUnlock, Join(1)], vec![TryWrite, AStore(0, 1), RwUnlock]]));
            v.push(sp(vec![vec![Read, TryReadNested, CellR(0), RwUnlock, Join(1)], vec![Write, CellW(0), RwUnlock]]));
            v.push(sp(vec![vec![Read, TryReadNested, TryReadNested, RwUnlock, Join(1), Join(2)], vec![TryWrite, RwUnlock], vec![Read, TryReadNested, RwUnlock]]));
            // the unlock inside Condvar::wait is a release like any other: what the waiter wrote in the critical section
            // that ends with the wait is visible to the next owner
            for note in [NotifyOne, NotifyAll] {
                v.push(sp(vec![vec![Lock(0), CellW(0), CvWaitUntil(1), Unlock(0), Join(1)], vec![Lock(0), CellR(0), Incr(0), note, Unlock(0)]]));
                v.push(sp(vec![vec![Lock(0), CellW(0), CvWaitUntil(1), CellR(0), Unlock(0), Join(1)], vec![Lock(0), CellW(0), Incr(0), Unlock(0), note]]));
                v.push(sp(vec![vec![Lock(0), CellW(0), CvWaitUntil(2), Unlock(0), Join(1), Join(2)], vec![Lock(0), CellR(0), Incr(0), note, Unlock(0)], vec![Lock(0), CellR(0), Incr(0), note, Unlock(0)]]));
            }
        }
        "C04" => {
            v.push(sp(vec![vec![CellW(0)], vec![CellW(0)]]));
            v.push(sp(vec![vec![CellW(0), Send(1)], vec![Send(2)]]));
            v.push(sp(vec![vec![Recv, CellR(0)], vec![CellW(0), Send(1)]]));
            v.push(sp(vec![vec![Recv, CellR(0)], vec![Send(1)], vec![CellW(0), Send(2)]]));
            v.push(sp(vec![vec![Join(1), CellR(0)], vec![CellW(0)]]));
            v.push(sp(vec![vec![CellW(0), Unpark(1)], vec![Park, CellR(0)]]));
            v.push(sp(vec![vec![CellW(0), NNotify], vec![NWait, CellR(0)]]));
            // a token that is already set: the second unpark still publishes the unparker's writes
            v.push(sp(vec![vec![RLoad(0), SkipUnlessLast(1, 2), Park, CellR(0)], vec![Unpark(0), CellW(0), Unpark(0), RStore(0, 1)]]));
            v.push(sp(vec![vec![RLoad(0), SkipUnlessLast(1, 4), RLoad(1), SkipUnlessLast(1, 2), Park, CellR(0)], vec![CellW(0), Unpark(0), RStore(0, 1)], vec![Unpark(0), RStore(1, 1)]]));
            // relaxed flag alone orders nothing
            v.push(sp(vec![vec![RLoad(0), SkipUnlessLast(1, 1), CellR(0)], vec![CellW(0), RStore(0, 1)]]));
            // a received message orders the receiver after THAT send (and the earlier ones), not after the sends of the
            // messages still queued behind it: the receiver is known (relaxed flags, no ordering) to find two queued messages
            for first in [Recv, TryRecv] {
                v.push(sp(vec![vec![RLoad(1), SkipUnlessLast(1, 3), first, CellR(0), Recv], vec![Send(1), RStore(0, 1)], vec![RLoad(0), SkipUnlessLast(1, 3), CellW(0), Send(2), RStore(1, 1)]]));
                v.push(sp(vec![vec![RLoad(1), SkipUnlessLast(1, 3), first, Recv, CellR(0)], vec![Send(1), RStore(0, 1)], vec![RLoad(0), SkipUnlessLast(1, 3), CellW(0), Send(2), RStore(1, 1)]]));
                v.push(sp(vec![vec![RLoad(0), SkipUnlessLast(1, 3), first, CellR(0), Recv], vec![Send(1), CellW(0), Send(2), RStore(0, 1)]]));
                v.push(sp(vec![vec![RLoad(0), SkipUnlessLast(1, 3), first, CellW(0), Recv], vec![CellR(0), Send(1), Send(2), RStore(0, 1)]]));
                v.push(sp(vec![vec![RLoad(0), SkipUnlessLast(1, 4), first, Recv, CellR(0), Recv], vec![Send(1), Send(2), CellW(0), Send(3), RStore(0, 1)]]));
            }
            // condvar hand-over with the predicate in the mutex
            v.push(sp(vec![vec![Lock(0), CvWait, CellR(0), Unlock(0)], vec![CellW(0), Lock(0), NotifyOne, Unlock(0)]]));
        }
        _ => {}
    }
    v
}

fn kinds_for(prop: &str) -> (&'static str, GenOpts) {
    match prop {
        "C01" => ("lltRWTpujsrcnaawfi", GenOpts::default()),
        "C04" => ("CCCCllRWpuujsrcnwfgg", GenOpts { cells: true, ..Default::default() }),
        "C05" => ("lllRWpuujsrcnwf", GenOpts { loom_arc_pct: 15, ..Default::default() }),
        "C06" => ("FFFlltRWpujsrcnawfCT", GenOpts { fails: true, cells: true, loom_arc_pct: 15, ..Default::default() }),
        "C07" => ("llltttRRWWTTiiCa", GenOpts { cells: true, ..Default::default() }),
        "C08" => ("llccnnnppuuujwwffCgg", GenOpts { cells: true, ..Default::default() }),
        "C09" => ("ssssrrrrCaD", GenOpts { cells: true, forget_rx_pct: 10, ..Default::default() }),
        "C10" => ("sssrrlD", GenOpts { forget_rx_pct: 50, ..Default::default() }),
        _ => ("l", GenOpts::default()),
    }
}

pub fn n_random(prop: &str, tier: u8) -> usize {
    match (prop, tier) {
        ("C10", 0) => 600,
        ("C10", _) => 8_000,
        ("C06", 0) => 1500,
        ("C06", _) => 15_000,
        (_, 0) => 2500,
        // measured: channel / rwlock heavy families cost 20-50x more per program at the thorough sizes
        ("C09", _) => 12_000,
        ("C07", _) => 15_000,
        ("C01", _) => 25_000,
        ("C04", _) => 40_000,
        (_, _) => 80_000,
    }
}

pub fn total(prop: &str, tier: u8) -> usize {
    core(prop, tier).len() + n_random(prop, tier)
}

pub fn prog_at(prop: &str, tier: u8, seed: u64, idx: usize) -> SProg {
    let c = core(prop, tier);
    if idx < c.len() {
        return c[idx].clone();
    }
    let mut rng = Rng::new(seed, (idx - c.len()) as u64 ^ fnv(prop) ^ 0x51);
    let (kinds, o) = kinds_for(prop);
    let t = 2 + rng.below(if tier == 0 { 2 } else { 3 });
    let k = match t {
        2 => 3 + (tier as usize),
        3 => 3,
        _ => 2,
    };
    gen_sync(&mut rng, t, k, kinds, o)
}

fn fmt_terms(s: &BTreeSet<Term>, max: usize) -> String {
    let mut v: Vec<String> = s.iter().take(max).map(|o| format!("{:?}", o)).collect();
    if s.len() > max {
        v.push(format!("…(+{})", s.len() - max));
    }
    v.join(" ")
}

/// named trigger predicates for call-site findings
fn triggers(p: &SProg) -> Vec<&'static str> {
    let mut v = Vec::new();
    let n = p.threads.len();
    // unpark aimed at a thread that can block in something other than park
    for t in 0..n {
        for op in &p.threads[t] {
            if let SOp::Unpark(u) = op {
                let u = *u as usize;
                if u < n && p.threads[u].iter().any(|o| matches!(o, SOp::Join(_) | SOp::Lock(_) | SOp::Recv | SOp::CvWait | SOp::CvWaitUntil(_) | SOp::NWait | SOp::Read | SOp::Write)) {
                    v.push("unpark_of_thread_that_blocks_elsewhere");
                }
                if u == 0 {
                    v.push("unpark_of_main");
                }
            }
        }
    }
    if p.loom_arc {
        v.push("objects_behind_loom_arc");
    }
    v.sort();
    v.dedup();
    v
}

pub fn judge(prop: &str, p: &SProg, rec: &mut Rec, tier: u8, verbose: bool) {
    rec.hash = p.hash();
    rec.prog = p.s();
    rec.extra = json!({"family": "sync"});
    // `must`: what every interleaving of the program's operations can do (no spurious wake-up) — the
    // completeness obligation; `r` (may): additionally with the single spurious Notify return loom is
    // allowed to model — the soundness bound.
    let (must, r) = match (reference(p, 400_000, false), reference(p, 400_000, true)) {
        (Some(a), Some(b)) => (a, b),
        _ => {
            rec.status = "inconclusive:reference-budget".into();
            return;
        }
    };
    let cfg = SCfg { iter_cap: if tier == 0 { 30_000 } else { 150_000 }, max_branches: 5_000, ..Default::default() };
    let l = run_loom(p, &cfg);
    rec.runs = 1;
    rec.iters = l.iters as u64;
    rec.events = l.events as u64;
    rec.outcomes = l.outcomes.len() as u64;
    rec.orders = l.orders as u64;
    let trig = triggers(p).join(",");
    for e in &l.replay_errors {
        rec.v("replay_invalid", "", e.clone());
    }
    let observed = l.kind();
    if observed == Some(PanicKind::IterCap) {
        rec.status = "inconclusive:iteration-cap".into();
        return;
    }
    // failure kinds the specification can reach (allowed), and those it reaches without a spurious wake-up (owed)
    let kinds = |r: &RefResult| {
        let mut v: Vec<PanicKind> = Vec::new();
        if r.can_deadlock() {
            v.push(PanicKind::Deadlock);
        }
        if r.can_race() {
            v.push(PanicKind::Causality);
        }
        if r.can_leak() {
            v.push(PanicKind::LeakMsgs);
        }
        for id in r.fails() {
            v.push(PanicKind::User(id.to_string()));
        }
        v
    };
    let expected = kinds(&r);
    let owed = kinds(&must);
    let site = |k: &PanicKind| format!("{} @ {} [{}]", k.short(), l.panic_file, trig);
    let detail = |what: &str| format!("{} ; reference terminals: {} ; loom: {:?} after {} iterations ; last log {:?}", what, fmt_terms(&r.terms, 8), l.panic.as_ref().map(|m| m.lines().next().unwrap_or("").to_string()), l.iters, l.last_log);
    match (&observed, owed.is_empty()) {
        (None, true) => {
            let dones = r.dones();
            let miss: BTreeSet<_> = must.dones().difference(&l.outcomes).cloned().collect();
            let extra: BTreeSet<_> = l.outcomes.difference(&dones).cloned().collect();
            if !miss.is_empty() {
                rec.v("missing_outcome", missing_signature(p, &miss, &r), format!("results never produced: {} ; loom produced {} in {} iterations", fmt_terms(&miss, 4), fmt_terms(&l.outcomes, 8), l.iters));
            }
            if !extra.is_empty() && !p.has_atomics() {
                rec.v("extra_outcome", "", format!("results the specification cannot produce: {} ; reference: {}", fmt_terms(&extra, 4), fmt_terms(&dones, 8)));
            }
            if l.hook_calls != l.iters {
                rec.v("harness_error", "", format!("hook calls {} != iterations {}", l.hook_calls, l.iters));
            }
        }
        (None, false) => {
            for k in &owed {
                let clause = match k {
                    PanicKind::Deadlock => "missed_deadlock",
                    PanicKind::Causality => "missed_race",
                    PanicKind::LeakMsgs => "missed_leak",
                    _ => "missed_failure",
                };
                rec.v(clause, missed_signature(p, k), detail(&format!("the specification reaches {} but loom::model returned normally", k.short())));
            }
        }
        (Some(k), _) => {
            if expected.contains(k) {
                // reported what the specification can reach
            } else {
                let clause = match k {
                    PanicKind::Deadlock => "false_deadlock",
                    PanicKind::Causality => "false_race",
                    PanicKind::LeakMsgs | PanicKind::LeakArc | PanicKind::LeakAlloc => "false_leak",
                    PanicKind::LoomInternal(_) => "loom_internal_panic",
                    PanicKind::BranchLimit => "unexpected_branch_limit",
                    PanicKind::User(_) => "false_failure",
                    PanicKind::IterCap => unreachable!(),
                };
                rec.v(clause, site(k), detail(&format!("loom reported {} which the specification cannot reach", k.short())));
                if !expected.is_empty() {
                    rec.v("wrong_failure", site(k), detail("a different failure than any the specification can reach"));
                }
            }
        }
    }
    rec.nontrivial = p.threads.iter().filter(|t| !t.is_empty()).count() >= 2 && (r.terms.len() >= 2 || l.iters >= 2);
    if !rec.viol.is_empty() {
        rec.prog_json = serde_json::to_value(p).unwrap();
    }
    if verbose || rec.idx % 499 == 0 {
        rec.extra = json!({"family": "sync", "reference_terminals": fmt_terms(&r.terms, 12), "reference_states": r.states, "loom_outcomes": fmt_terms(&l.outcomes, 12), "loom_panic": l.panic.as_ref().map(|m| m.lines().next().unwrap_or("").to_string()), "triggers": trig});
    }
}

/// History signature of a missing outcome: the feature shared by every reference witness.
/// Computed by re-running the reference with the feature forbidden: if the outcome disappears,
/// every witness needs the feature.
fn missing_signature(p: &SProg, miss: &BTreeSet<Term>, full: &RefResult) -> String {
    let _ = full;
    let mut sigs: Vec<&str> = Vec::new();
    for (name, variant) in RESTRICTIONS {
        if let Some(r2) = reference_restricted(p, variant) {
            if std::env::var("LV_DEBUG_SIG").is_ok() {
                eprintln!("restricted {} -> {:?}", name, r2);
            }
            if miss.iter().all(|m| !r2.contains(m)) {
                sigs.push(name);
            }
        }
    }
    sigs.join("+")
}

const RESTRICTIONS: [(&str, Restrict); 4] = [
    ("needs_spurious_notify_return", Restrict::YieldAfterSpurious),
    ("needs_failing_try_acquire", Restrict::NoFailingTry),
    ("needs_successful_try_recv", Restrict::NoSuccessfulTryRecv),
    ("needs_unpark_of_a_thread_that_is_not_parked", Restrict::NoUnparkToken),
];

/// History signature of a failure loom did not report: the features without which the
/// specification cannot reach it either.
fn missed_signature(p: &SProg, k: &PanicKind) -> String {
    let target = match k {
        PanicKind::Deadlock => Term::Deadlock,
        PanicKind::Causality => Term::Race,
        PanicKind::LeakMsgs => Term::LeakMsgs,
        PanicKind::User(id) => Term::Failed(id.parse().unwrap_or(0)),
        _ => return k.short(),
    };
    let mut sigs: Vec<&str> = Vec::new();
    for (name, variant) in RESTRICTIONS {
        if let Some(r2) = reference_restricted(p, variant) {
            if !r2.contains(&target) {
                sigs.push(name);
            }
        }
    }
    sigs.join("+")
}

#[derive(Clone, Copy, PartialEq)]
pub enum Restrict {
    /// try_lock / try_read / try_write never fail (paths with a failing try-acquire are cut)
    NoFailingTry,
    /// try_recv never returns a message
    NoSuccessfulTryRecv,
    /// unpark never reaches a thread that is not parked (no token is ever stored)
    NoUnparkToken,
    /// a thread whose Notify::wait returned spuriously does not run again before another enabled thread has run
    /// (loom yields after the modelled spurious return)
    YieldAfterSpurious,
}

/// Terminals of the reference when every path containing the restricted feature is cut.
fn reference_restricted(p: &SProg, r: Restrict) -> Option<BTreeSet<Term>> {
    let m = Machine { p, fifo: true, spurious: r != Restrict::YieldAfterSpurious };
    let mut seen = std::collections::HashSet::new();
    let mut out = BTreeSet::new();
    // (state, mask of threads that yielded after a spurious return)
    let mut stack = vec![(m.init(), 0u8)];
    while let Some((s, yielded)) = stack.pop() {
        if !seen.insert((s.clone(), yielded)) {
            continue;
        }
        if seen.len() > 400_000 {
            return None;
        }
        if s.failed().is_some() {
            out.insert(Term::Failed(s.failed().unwrap()));
            continue;
        }
        if s.raced() {
            out.insert(Term::Race);
            continue;
        }
        let n = p.threads.len();
        let enabled: Vec<bool> = (0..n).map(|t| !m.steps(&s, t).is_empty()).collect();
        let mut any = false;
        for t in 0..n {
            if r == Restrict::YieldAfterSpurious && yielded >> t & 1 == 1 && (0..n).any(|u| u != t && enabled[u] && yielded >> u & 1 == 0) {
                any = true; // t is enabled but deprioritised
                continue;
            }
            let op = m.op_at(&s, t);
            let at_entry = s.sub_of(t) == 0;
            for (ns, completes, res) in m.steps(&s, t) {
                any = true;
                let cut = match (r, op) {
                    (Restrict::NoFailingTry, Some(SOp::TryLock(_) | SOp::TryRead | SOp::TryWrite)) => res == Some(0),
                    (Restrict::NoSuccessfulTryRecv, Some(SOp::TryRecv)) => res != Some(-1),
                    // only counts when the target parks at all (otherwise the token is never looked at)
                    (Restrict::NoUnparkToken, Some(SOp::Unpark(u))) => res == Some(-8) && p.threads.get(u as usize).map(|t| t.contains(&SOp::Park)).unwrap_or(false),
                    _ => false,
                };
                if cut {
                    continue;
                }
                let mut y = yielded & (1 << t); // every other thread is re-activated once t has run
                if r == Restrict::YieldAfterSpurious && op == Some(SOp::NWait) && at_entry && completes {
                    y |= 1 << t;
                } else if completes {
                    y &= !(1 << t);
                }
                stack.push((ns, y));
            }
        }
        if !any {
            if m.all_done(&s) {
                out.insert(if p.forget_rx && s.chan_len() > 0 { Term::LeakMsgs } else { m.term_done(&s) });
            } else {
                out.insert(Term::Deadlock);
            }
        }
    }
    Some(out)
}

/// Probe model: its complete per-iteration record must be the same in a fresh process and after
/// any number of failed models (C06 "a later model run in the same process starts clean", C16).
pub fn probe() -> (Vec<Vec<u64>>, Vec<Vec<(u8, u8)>>, Vec<u64>, Option<String>, String) {
    use crate::lit::{self, Op, Ord_::*};
    let p = lit::Prog { nlocs: 2, pre: vec![], threads: vec![vec![Op::Store { loc: 0, val: 1, ord: Rel }, Op::Load { loc: 1, ord: Acq }], vec![Op::Swap { loc: 1, val: 7, ord: AcqRel }, Op::Load { loc: 0, ord: Rlx }], vec![Op::Cas { loc: 0, exp: 1, new: 13, succ: Sc, fail: Rlx }]] };
    let r = lit::run(&p, &lit::Cfg { iter_cap: 100_000, keep_paths: true, keep_seq: true, ..Default::default() });
    // plus a blocking program: outcome set and iteration count
    let sp_ = sp(vec![vec![SOp::Lock(0), SOp::Send(1), SOp::Unlock(0), SOp::Recv, SOp::Join(1)], vec![SOp::TryLock(0), SOp::Unlock(0), SOp::Send(11), SOp::Unpark(0)]]);
    let l = run_loom(&sp_, &SCfg { iter_cap: 100_000, max_branches: 5000, ..Default::default() });
    (r.seq, r.order_seq, crate::fam_path::digest_paths(&r.paths), r.panic.or(l.panic), format!("{} {:?}", l.iters, l.outcomes))
}

/// C06 crash point "the branch limit is reached inside some thread": run once to measure the longest
/// decision path L, then with max_branches = L - 1 (must unwind with the branch-limit panic) and = L.
fn branch_limit_crash_point(p: &SProg, rec: &mut Rec, tier: u8) {
    let cfg = SCfg { iter_cap: if tier == 0 { 30_000 } else { 150_000 }, max_branches: 5_000, keep_paths: true, ..Default::default() };
    let base = run_loom(p, &cfg);
    rec.runs += 1;
    if base.panic.is_some() || base.paths.is_empty() {
        return;
    }
    let l = base.paths.iter().map(|x| x.len()).max().unwrap_or(0);
    if l < 2 {
        return;
    }
    // just below the need (the limit is hit at the end of the longest execution) and well below it (hit in the middle
    // of the first execution, while other threads can still run)
    let mut limits = vec![l - 1, (l / 2).max(1), (2 * l / 3).max(1)];
    limits.dedup();
    for m in limits {
        let r = run_loom(p, &SCfg { max_branches: m, keep_paths: false, ..cfg.clone() });
        rec.runs += 1;
        rec.iters += r.iters as u64;
        if r.kind() != Some(PanicKind::BranchLimit) {
            rec.v("missed_failure", "branch_limit", format!("longest decision path {}; max_branches = {} ended with {:?}: {}", l, m, r.kind().map(|k| k.short()), r.panic.as_deref().unwrap_or("").lines().next().unwrap_or("")));
            break;
        }
        if std::thread::panicking() {
            break; // reported by the worker's panic-state monitor
        }
    }
    let r = run_loom(p, &SCfg { max_branches: l, keep_paths: false, ..cfg });
    rec.runs += 1;
    rec.iters += r.iters as u64;
    if r.panic.is_some() {
        rec.v("false_failure", "branch_limit", format!("max_branches = {} (exact need) ended with {:?}", l, r.kind().map(|k| k.short())));
    }
}

pub fn work(prop: &str, tier: u8, seed: u64, idx: usize) -> Rec {
    let mut rec = Rec::new(idx);
    let p = prog_at(prop, tier, seed, idx);
    if prop == "C06" {
        static FRESH: OnceLock<(Vec<Vec<u64>>, Vec<Vec<(u8, u8)>>, Vec<u64>, Option<String>, String)> = OnceLock::new();
        let fresh = FRESH.get_or_init(probe);
        judge(prop, &p, &mut rec, tier, false);
        if (idx % 4 == 0 || idx < core(prop, tier).len()) && rec.viol.is_empty() && rec.status == "ok" {
            branch_limit_crash_point(&p, &mut rec, tier);
        }
        // under valgrind the (expensive) probe runs after every 8th program only
        if std::env::var("LV_UNDER_VALGRIND").is_ok() && idx % 8 != 0 {
            return rec;
        }
        let after = probe();
        rec.runs += 2;
        rec.iters += after.0.len() as u64;
        if &after != fresh {
            rec.v("dirty_after_failure", "", format!("the probe model behaves differently after this model: {} iterations vs {} in a fresh process; panic {:?}", after.0.len(), fresh.0.len(), after.3));
            rec.prog_json = serde_json::to_value(&p).unwrap();
        }
    } else {
        judge(prop, &p, &mut rec, tier, false);
    }
    rec
}

/// Record for a program whose worker process died while running it.
pub fn describe_died(prop: &str, tier: u8, seed: u64, idx: usize, status: &str) -> Rec {
    let mut rec = Rec::new(idx);
    let p = prog_at(prop, tier, seed, idx);
    rec.hash = p.hash();
    rec.prog = p.s();
    rec.prog_json = serde_json::to_value(&p).unwrap();
    rec.extra = json!({"family": "sync"});
    rec.nontrivial = true;
    rec.status = "ok".into();
    rec.v("process_died", format!("{} [{}]", status.split(':').next().unwrap_or(""), triggers(&p).join(",")), format!("the worker process died ({}) while loom::model ran this program", status));
    rec
}
