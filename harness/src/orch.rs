//! Orchestration: shard job indices over worker processes, collect records, survive worker deaths,
//! write evidence, classify violations against known_findings.json, print the verdict lines.
use crate::common::*;
use serde::{Deserialize, Serialize};
use serde_json::{json, Value};
use std::io::{BufRead, BufReader};
use std::process::{Command, Stdio};
use std::sync::atomic::{AtomicU64, Ordering};
use std::sync::{Arc, Mutex};
use std::time::{Duration, Instant};

#[derive(Clone, Debug, Serialize, Deserialize, Default)]
pub struct Viol {
    pub clause: String,
    /// abstract signature used to match known findings (history / call-site signature)
    pub sig: String,
    pub detail: String,
}

#[derive(Clone, Debug, Serialize, Deserialize, Default)]
pub struct Rec {
    pub idx: usize,
    pub hash: u64,
    pub prog: String,
    #[serde(default)]
    pub prog_json: Value,
    pub nontrivial: bool,
    pub runs: u64,
    pub iters: u64,
    pub events: u64,
    pub outcomes: u64,
    pub orders: u64,
    pub entries: u64,
    /// "ok" | "inconclusive:<why>" | "died:<status>" | "timeout"
    pub status: String,
    pub viol: Vec<Viol>,
    #[serde(default)]
    pub extra: Value,
}

impl Rec {
    pub fn new(idx: usize) -> Rec {
        Rec { idx, status: "ok".into(), ..Default::default() }
    }
    pub fn v(&mut self, clause: &str, sig: impl Into<String>, detail: impl Into<String>) {
        self.viol.push(Viol { clause: clause.into(), sig: sig.into(), detail: detail.into() });
    }
}

pub fn tier_name(t: u8) -> &'static str {
    if t == 0 {
        "quick"
    } else {
        "thorough"
    }
}

/// Run `total` jobs of `family` (for property `prop`) on worker processes. Records come back in index order.
pub type DiedFn = fn(&str, &str, u8, u64, usize, &str) -> Option<Rec>;

pub fn run_family(family: &str, prop: &str, tier: u8, seed: u64, total: usize, watchdog: Duration, died: DiedFn) -> Vec<Rec> {
    let nworkers = jobs().min(total.max(1));
    let exe = std::env::current_exe().expect("current_exe");
    let results: Arc<Mutex<Vec<Option<Rec>>>> = Arc::new(Mutex::new(vec![None; total]));
    let mut handles = Vec::new();
    // jobs that hang cost a full watchdog period each: after the second one the period shrinks (a job of the quick tier
    // takes seconds), after twelve the remaining jobs of the family are not started (they stay inconclusive)
    let timeouts = Arc::new(AtomicU64::new(0));
    for w in 0..nworkers {
        let (exe, family, prop, results, timeouts) = (exe.clone(), family.to_string(), prop.to_string(), results.clone(), timeouts.clone());
        handles.push(std::thread::spawn(move || {
            let mut start = w;
            while start < total {
                if timeouts.load(Ordering::Relaxed) >= 12 {
                    let mut r = results.lock().unwrap();
                    let mut i = start;
                    while i < total {
                        if r[i].is_none() {
                            let mut rec = Rec::new(i);
                            rec.status = "inconclusive:not-started-after-12-timeouts".into();
                            r[i] = Some(rec);
                        }
                        i += nworkers;
                    }
                    break;
                }
                // spawn a worker for indices start, start+n, ...
                let mut child = Command::new(&exe)
                    .args(["worker", &family, &prop, &tier.to_string(), &seed.to_string(), &start.to_string(), &nworkers.to_string(), &total.to_string()])
                    .stdin(Stdio::null())
                    .stdout(Stdio::piped())
                    .stderr(Stdio::null())
                    .spawn()
                    .expect("spawn worker");
                let stdout = child.stdout.take().unwrap();
                let last_activity = Arc::new(AtomicU64::new(0));
                let t0 = Instant::now();
                let current: Arc<Mutex<Option<usize>>> = Arc::new(Mutex::new(None));
                let (la2, cur2, res2) = (last_activity.clone(), current.clone(), results.clone());
                let reader = std::thread::spawn(move || {
                    let rd = BufReader::with_capacity(1 << 16, stdout);
                    for line in rd.lines() {
                        let line = match line {
                            Ok(l) => l,
                            Err(_) => break,
                        };
                        la2.store(t0.elapsed().as_millis() as u64, Ordering::Relaxed);
                        if let Some(r) = line.strip_prefix("B ") {
                            *cur2.lock().unwrap() = r.trim().parse().ok();
                        } else if let Some(r) = line.strip_prefix("R ") {
                            match serde_json::from_str::<Rec>(r) {
                                Ok(rec) => {
                                    let i = rec.idx;
                                    res2.lock().unwrap()[i] = Some(rec);
                                    *cur2.lock().unwrap() = None;
                                }
                                Err(e) => eprintln!("lv: bad record from worker: {} :: {}", e, &r[..r.len().min(200)]),
                            }
                        }
                    }
                });
                // watchdog loop
                let mut timed_out = false;
                loop {
                    match child.try_wait() {
                        Ok(Some(_)) => break,
                        Ok(None) => {}
                        Err(_) => break,
                    }
                    let idle = t0.elapsed().as_millis() as u64 - last_activity.load(Ordering::Relaxed);
                    let limit = if timeouts.load(Ordering::Relaxed) >= 2 { watchdog.as_millis() as u64 / 5 } else { watchdog.as_millis() as u64 };
                    if idle > limit {
                        timeouts.fetch_add(1, Ordering::Relaxed);
                        timed_out = true;
                        let _ = child.kill();
                        break;
                    }
                    std::thread::sleep(Duration::from_millis(20));
                }
                let status = child.wait();
                let _ = reader.join();
                let cur = *current.lock().unwrap();
                match cur {
                    Some(i) => {
                        // the worker died (or was killed) while working on i
                        let st = if timed_out { "timeout".to_string() } else { format!("died:{}", status.map(|s| s.to_string()).unwrap_or_default()) };
                        let rec = died(&family, &prop, tier, seed, i, &st).unwrap_or_else(|| {
                            let mut rec = Rec::new(i);
                            rec.status = st.clone();
                            rec
                        });
                        results.lock().unwrap()[i] = Some(rec);
                        start = i + nworkers;
                    }
                    None => {
                        // finished (or died between programs): continue after the last completed index
                        let done = results.lock().unwrap().iter().enumerate().filter(|(i, r)| i % nworkers == w && r.is_some()).map(|(i, _)| i).max();
                        let ok = status.as_ref().map(|s| s.success()).unwrap_or(false);
                        if ok {
                            break;
                        }
                        start = match done {
                            Some(d) => d + nworkers,
                            None => {
                                // died before announcing anything: give up on this shard
                                let mut rec = Rec::new(start);
                                rec.status = "died:before-first-program".into();
                                results.lock().unwrap()[start] = Some(rec);
                                start + nworkers
                            }
                        };
                    }
                }
            }
        }));
    }
    for h in handles {
        let _ = h.join();
    }
    let mut v = results.lock().unwrap();
    if let Ok(path) = std::env::var("LV_DUMP") {
        use std::io::Write;
        if let Ok(mut f) = std::fs::File::create(&path) {
            for r in v.iter().flatten() {
                let _ = writeln!(f, "{}", serde_json::to_string(r).unwrap());
            }
        }
    }
    v.iter_mut()
        .enumerate()
        .map(|(i, r)| {
            r.take().unwrap_or_else(|| {
                let mut rec = Rec::new(i);
                rec.status = "inconclusive:no-result".into();
                rec
            })
        })
        .collect()
}

/// Entry point of a worker process.
pub fn worker_main(args: &[String], work: &dyn Fn(&str, &str, u8, u64, usize) -> Rec) {
    let family = &args[0];
    let prop = &args[1];
    let tier: u8 = args[2].parse().unwrap();
    let seed: u64 = args[3].parse().unwrap();
    let start: usize = args[4].parse().unwrap();
    let stride: usize = args[5].parse().unwrap();
    let end: usize = args[6].parse().unwrap();
    use std::io::Write;
    let out = std::io::stdout();
    let mut i = start;
    while i < end {
        {
            let mut o = out.lock();
            let _ = writeln!(o, "B {}", i);
            let _ = o.flush();
        }
        let mut rec = work(family, prop, tier, seed, i);
        // monitor on the OS thread's panic state: once every model of the job has returned (normally or by unwinding
        // into the harness' catch_unwind), no panic is in flight. If one still is, an unwind was left suspended inside a
        // coroutine and every later model on this thread would run with loom's `panicking()` guards flipped.
        let leaked = std::thread::panicking();
        if leaked {
            rec.v("panic_state_leaked", "", "std::thread::panicking() is still true on this OS thread after the models of this job returned: an unwind was left suspended, later models here run with loom's panicking() guards switched".to_string());
        }
        {
            let mut o = out.lock();
            let _ = writeln!(o, "R {}", serde_json::to_string(&rec).unwrap());
            let _ = o.flush();
        }
        if leaked {
            // this process is spoiled; the orchestrator starts a fresh worker for the remaining jobs of the shard
            std::process::exit(3);
        }
        i += stride;
    }
}

// ---------------------------------------------------------------------------------------------
// Sanitizer lane: the same worker binary under valgrind memcheck on a sample of the family
// ---------------------------------------------------------------------------------------------

pub struct MemcheckReport {
    pub programs: usize,
    pub completed: usize,
    pub errors: usize,
    pub processes: usize,
    pub died: usize,
    /// processes stopped when the lane's wall-clock budget ran out (their remaining programs are not judged)
    pub stopped_at_budget: usize,
    pub first_error: String,
    pub log_dir: String,
    pub wall_s: f64,
    pub violations_in_sample: usize,
}

/// Runs `count` programs (every `step`-th job index) of a family under `valgrind --tool=memcheck`.
/// Leak checking is off: `generator` deliberately does not unwind suspended coroutines of a
/// panicking model, and the harness keeps address-remembering monitors.
pub fn run_memcheck(family: &str, prop: &str, tier: u8, seed: u64, total: usize, count: usize) -> Option<MemcheckReport> {
    if std::env::var("LV_NO_MEMCHECK").is_ok() || Command::new("valgrind").arg("--version").output().is_err() {
        return None;
    }
    let t0 = Instant::now();
    let count = count.min(total).max(1);
    let step = (total / count).max(1);
    let nproc = jobs().min(count);
    let exe = std::env::current_exe().expect("current_exe");
    let dir = verif_root().join("work").join(format!("memcheck-{}-{}", prop, family));
    let _ = std::fs::remove_dir_all(&dir);
    let _ = std::fs::create_dir_all(&dir);
    let mut children = Vec::new();
    for w in 0..nproc {
        let log = dir.join(format!("vg-{}.log", w));
        let out = std::fs::File::create(dir.join(format!("out-{}.txt", w))).ok()?;
        let child = Command::new("valgrind")
            .args(["--tool=memcheck", "--leak-check=no", "--error-exitcode=0", "--num-callers=25", "--error-limit=no", "-q"])
            .arg(format!("--log-file={}", log.display()))
            .arg(&exe)
            // the programs of the quick tier (small iteration caps) in both tiers: under valgrind a thorough-tier program can take an hour
            .args(["worker", family, prop, "0", &seed.to_string(), &(w * step).to_string(), &(nproc * step).to_string(), &(count * step).min(total).to_string()])
            .env("LV_UNDER_VALGRIND", "1")
            .stdin(Stdio::null())
            .stdout(Stdio::from(out))
            .stderr(Stdio::null())
            .spawn()
            .ok()?;
        children.push(child);
    }
    // wall-clock budget of the lane: what has not completed by then is not judged (reported as such in the evidence)
    let budget = Duration::from_secs(if tier == 0 { 60 } else { 1500 });
    let mut died = 0;
    let mut stopped = 0;
    let mut running: Vec<Option<std::process::Child>> = children.into_iter().map(Some).collect();
    loop {
        let mut alive = 0;
        for slot in running.iter_mut() {
            if let Some(c) = slot {
                match c.try_wait() {
                    Ok(Some(s)) => {
                        if !s.success() {
                            died += 1;
                        }
                        *slot = None;
                    }
                    Ok(None) => alive += 1,
                    Err(_) => {
                        died += 1;
                        *slot = None;
                    }
                }
            }
        }
        if alive == 0 {
            break;
        }
        if t0.elapsed() > budget {
            for slot in running.iter_mut() {
                if let Some(c) = slot {
                    let _ = c.kill();
                    let _ = c.wait();
                    stopped += 1;
                    *slot = None;
                }
            }
            break;
        }
        std::thread::sleep(Duration::from_millis(100));
    }
    let mut rep = MemcheckReport { programs: count, completed: 0, errors: 0, processes: nproc, died, stopped_at_budget: stopped, first_error: String::new(), log_dir: dir.display().to_string(), wall_s: 0.0, violations_in_sample: 0 };
    for w in 0..nproc {
        if let Ok(s) = std::fs::read_to_string(dir.join(format!("out-{}.txt", w))) {
            for l in s.lines() {
                if let Some(r) = l.strip_prefix("R ") {
                    rep.completed += 1;
                    if let Ok(rec) = serde_json::from_str::<Rec>(r) {
                        rep.violations_in_sample += (!rec.viol.is_empty()) as usize;
                    }
                }
            }
        }
        if let Ok(s) = std::fs::read_to_string(dir.join(format!("vg-{}.log", w))) {
            // with -q only errors are written; each report block starts with "==pid== <Kind>" after a blank "==pid== " line
            let mut blocks = 0;
            let mut prev_blank = true;
            for l in s.lines() {
                let body = l.splitn(3, "==").nth(2).unwrap_or("").trim();
                if body.is_empty() {
                    prev_blank = true;
                    continue;
                }
                if prev_blank && !body.starts_with("at ") && !body.starts_with("by ") && !body.starts_with("Warning") && !body.contains("client switching stacks") && !body.starts_with("to suppress") && !body.starts_with("further instances") {
                    blocks += 1;
                    if rep.first_error.is_empty() {
                        rep.first_error = s.lines().skip_while(|x| *x != l).take(12).collect::<Vec<_>>().join("\n");
                    }
                }
                prev_blank = false;
            }
            rep.errors += blocks;
        }
    }
    rep.wall_s = t0.elapsed().as_secs_f64();
    Some(rep)
}

// ---------------------------------------------------------------------------------------------
// Known findings
// ---------------------------------------------------------------------------------------------

#[derive(Clone, Debug, Deserialize)]
pub struct Finding {
    pub property: String,
    pub status: String, // open | fixed
    #[serde(default)]
    pub commit: String,
    pub what: String,
    pub clause: String,
    /// "input" | "history" | "call_site"
    pub id_by: String,
    #[serde(default)]
    pub atlas: Vec<String>,
    #[serde(default)]
    pub signature: String,
}

pub fn verif_root() -> std::path::PathBuf {
    if let Ok(r) = std::env::var("LV_ROOT") {
        return r.into();
    }
    // the binary lives in <root>/harness/target*/release/lv
    let exe = std::env::current_exe().unwrap();
    let mut p = exe.as_path();
    while let Some(parent) = p.parent() {
        if parent.join("properties.jsonl").exists() {
            return parent.to_path_buf();
        }
        p = parent;
    }
    "/verif".into()
}

pub fn load_findings() -> Vec<Finding> {
    let path = verif_root().join("known_findings.json");
    match std::fs::read_to_string(&path) {
        Ok(s) => serde_json::from_str(&s).unwrap_or_else(|e| {
            eprintln!("lv: cannot parse {}: {}", path.display(), e);
            std::process::exit(2)
        }),
        Err(_) => vec![],
    }
}

fn matches_finding(f: &Finding, prop: &str, rec: &Rec, v: &Viol) -> bool {
    if f.status != "open" || f.property != prop || f.clause != v.clause {
        return false;
    }
    match f.id_by.as_str() {
        "input" => f.atlas.iter().any(|h| *h == format!("{:016x}", rec.hash)),
        // a history signature is the '+'-joined list of features shared by every reference witness
        "history" => !f.signature.is_empty() && v.sig.split('+').any(|x| x == f.signature),
        "call_site" => !f.signature.is_empty() && f.signature == v.sig,
        _ => false,
    }
}

// ---------------------------------------------------------------------------------------------
// Reports
// ---------------------------------------------------------------------------------------------

pub struct Check<'a> {
    pub prop: &'a str,
    pub tier: u8,
    pub seed: u64,
    /// clauses of the records that count for this property
    pub clauses: &'a [&'a str],
    pub rule: String,
    pub trusted_base: Vec<String>,
    pub assumptions: Vec<String>,
    pub extra: Value,
    pub samples: Vec<Value>,
    pub exhaustive: bool,
    /// minimum number of loom iterations / nontrivial programs for the run to count as having observed something
    pub min_nontrivial: usize,
    pub sanitizer: Value,
}

pub fn finish(c: Check, recs: &[Rec], t0: Instant) -> i32 {
    let findings = load_findings();
    let root = verif_root();
    let _ = std::fs::create_dir_all(root.join("evidence"));
    let _ = std::fs::create_dir_all(root.join("replays"));
    let mut distinct = std::collections::HashSet::new();
    let (mut iters, mut events, mut outcomes, mut orders, mut entries, mut runs) = (0u64, 0u64, 0u64, 0u64, 0u64, 0u64);
    let (mut held, mut violated, mut inconclusive, mut known, mut died) = (0usize, 0usize, 0usize, 0usize, 0usize);
    let mut inconclusive_why: std::collections::BTreeMap<String, usize> = Default::default();
    let mut lines: Vec<String> = Vec::new();
    let mut known_lines: std::collections::BTreeMap<String, usize> = Default::default();
    let mut viol_by_clause: std::collections::BTreeMap<String, usize> = Default::default();
    let mut replay_n = 0;
    for r in recs {
        iters += r.iters;
        events += r.events;
        outcomes += r.outcomes;
        orders += r.orders;
        entries += r.entries;
        runs += r.runs;
        if r.nontrivial {
            distinct.insert(r.hash);
        }
        if r.status != "ok" {
            inconclusive += 1;
            if r.status.starts_with("died") {
                died += 1;
            }
            let why = r.status.split(':').take(2).collect::<Vec<_>>().join(":");
            *inconclusive_why.entry(why).or_default() += 1;
        }
        let mine: Vec<&Viol> = r.viol.iter().filter(|v| c.clauses.contains(&v.clause.as_str()) || v.clause == "harness_error").collect();
        if mine.is_empty() {
            if r.status == "ok" {
                held += 1;
            }
            continue;
        }
        let mut any_new = false;
        for v in &mine {
            if v.clause == "harness_error" {
                continue;
            }
            if let Some(f) = findings.iter().find(|f| matches_finding(f, c.prop, r, v)) {
                *known_lines.entry(f.what.clone()).or_default() += 1;
            } else {
                any_new = true;
                *viol_by_clause.entry(v.clause.clone()).or_default() += 1;
                if replay_n < 40 {
                    let path = root.join("replays").join(format!("{}-{}-{:016x}-{}.json", c.prop, tier_name(c.tier), r.hash, v.clause));
                    let body = json!({"property": c.prop, "tier": tier_name(c.tier), "seed": c.seed, "idx": r.idx, "clause": v.clause, "signature": v.sig,
                        "detail": v.detail, "program": r.prog, "program_json": r.prog_json, "family": r.extra.get("family").cloned().unwrap_or(Value::Null)});
                    let _ = std::fs::write(&path, serde_json::to_string_pretty(&body).unwrap());
                    lines.push(format!("VIOLATION property={} replay={}", c.prop, path.display()));
                    eprintln!("  [{}] {} :: {} :: {}", v.clause, r.prog, v.sig, v.detail.chars().take(300).collect::<String>());
                    replay_n += 1;
                }
            }
        }
        for v in &mine {
            if v.clause == "harness_error" {
                eprintln!("HARNESS-ERROR {} :: {}", r.prog, v.detail);
                inconclusive += 1;
                *inconclusive_why.entry("harness_error".into()).or_default() += 1;
            }
        }
        if any_new {
            violated += 1;
        } else {
            known += 1;
        }
    }
    for (w, n) in &known_lines {
        println!("KNOWN-FINDING: property={} {} (observed on {} programs in this run)", c.prop, w, n);
    }
    let wall = t0.elapsed().as_secs_f64();
    let mut coverage = json!({
        "evaluations": runs.max(recs.len() as u64),
        "distinct_nontrivial": distinct.len(),
        "rule": c.rule,
        "samples": c.samples,
        "programs": recs.len(),
        "loom_iterations": iters,
        "events_logged": events,
        "distinct_outcomes_total": outcomes,
        "distinct_execution_orders_total": orders,
        "decision_entries": entries,
        "verdicts": {"held": held, "violated": violated, "known_finding": known, "inconclusive": inconclusive},
        "inconclusive_reasons": inconclusive_why,
        "violations_by_clause": viol_by_clause,
        "worker_processes_died": died,
        "trusted_base": c.trusted_base,
        "exhaustive": c.exhaustive,
        "sanitizer": c.sanitizer,
    });
    if let (Some(o), Some(e)) = (coverage.as_object_mut(), c.extra.as_object()) {
        for (k, v) in e {
            o.insert(k.clone(), v.clone());
        }
    }
    let ev = json!({
        "property_id": c.prop, "tier": tier_name(c.tier), "seed": c.seed, "level": "exploration",
        "coverage": coverage, "assumptions": c.assumptions, "wall_s": wall, "violations": violated,
    });
    let evpath = root.join("evidence").join(format!("{}.json", c.prop));
    std::fs::write(&evpath, serde_json::to_string_pretty(&ev).unwrap()).expect("write evidence");
    for l in &lines {
        println!("{}", l);
    }
    println!(
        "{} {} seed={}: programs={} nontrivial_distinct={} loom_runs={} iterations={} events={} held={} violated={} known={} inconclusive={} wall={:.1}s",
        c.prop,
        tier_name(c.tier),
        c.seed,
        recs.len(),
        distinct.len(),
        runs,
        iters,
        events,
        held,
        violated,
        known,
        inconclusive,
        wall
    );
    if violated > 0 {
        return 1;
    }
    // a run that observed nothing, or that is mostly inconclusive, is a harness error, not a pass
    if distinct.len() < c.min_nontrivial.max(2) || iters == 0 {
        eprintln!("HARNESS-ERROR: the run observed too little ({} non-trivial programs, {} iterations)", distinct.len(), iters);
        return 2;
    }
    if inconclusive * 12 > recs.len() {
        eprintln!("HARNESS-ERROR: {} of {} programs inconclusive: {:?}", inconclusive, recs.len(), inconclusive_why);
        return 2;
    }
    0
}
