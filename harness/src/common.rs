//! Shared helpers: PRNG, hashing, panic capture and classification.
use std::any::Any;
use std::cell::RefCell;

/// SplitMix64; every random choice in the harness comes from one of these, seeded from VERIF_SEED.
#[derive(Clone)]
pub struct Rng(pub u64);
impl Rng {
    pub fn new(seed: u64, stream: u64) -> Rng {
        let mut r = Rng(seed.wrapping_mul(0x9E3779B97F4A7C15) ^ stream.wrapping_mul(0xD1B54A32D192ED03) ^ 0x5851F42D4C957F2D);
        r.next();
        r.next();
        r
    }
    pub fn next(&mut self) -> u64 {
        self.0 = self.0.wrapping_add(0x9E3779B97F4A7C15);
        let mut z = self.0;
        z = (z ^ (z >> 30)).wrapping_mul(0xBF58476D1CE4E5B9);
        z = (z ^ (z >> 27)).wrapping_mul(0x94D049BB133111EB);
        z ^ (z >> 31)
    }
    pub fn below(&mut self, n: usize) -> usize {
        debug_assert!(n > 0);
        (self.next() % n as u64) as usize
    }
    pub fn chance(&mut self, num: usize, den: usize) -> bool {
        self.below(den) < num
    }
    pub fn pick<'a, T>(&mut self, v: &'a [T]) -> &'a T {
        &v[self.below(v.len())]
    }
}

/// FNV-1a, stable across runs and toolchains (used for program identities in evidence and findings).
pub fn fnv(s: &str) -> u64 {
    let mut h: u64 = 0xcbf29ce484222325;
    for b in s.as_bytes() {
        h ^= *b as u64;
        h = h.wrapping_mul(0x100000001b3);
    }
    h
}

pub fn panic_msg(e: Box<dyn Any + Send>) -> String {
    if let Some(s) = e.downcast_ref::<String>() {
        s.clone()
    } else if let Some(s) = e.downcast_ref::<&str>() {
        s.to_string()
    } else {
        "<non-string panic payload>".to_string()
    }
}

#[derive(Clone, Debug, PartialEq, Eq, Hash, PartialOrd, Ord)]
pub enum PanicKind {
    Deadlock,
    Causality,
    LeakArc,
    LeakAlloc,
    LeakMsgs,
    BranchLimit,
    User(String),
    IterCap,
    LoomInternal(String),
}

impl PanicKind {
    pub fn short(&self) -> String {
        match self {
            PanicKind::Deadlock => "deadlock".into(),
            PanicKind::Causality => "causality".into(),
            PanicKind::LeakArc => "leak_arc".into(),
            PanicKind::LeakAlloc => "leak_alloc".into(),
            PanicKind::LeakMsgs => "leak_msgs".into(),
            PanicKind::BranchLimit => "branch_limit".into(),
            PanicKind::User(s) => format!("user:{}", s),
            PanicKind::IterCap => "iter_cap".into(),
            PanicKind::LoomInternal(s) => format!("internal:{}", s),
        }
    }
}

pub const USER_PANIC_PREFIX: &str = "LV-USER-PANIC:";
pub const ITER_CAP_MSG: &str = "LV-ITERATION-CAP";

/// Classify a panic payload that came out of `loom::model`. Prefixes are loom's documented messages.
pub fn classify(msg: &str) -> PanicKind {
    let first = msg.lines().next().unwrap_or("");
    if msg.starts_with(ITER_CAP_MSG) {
        PanicKind::IterCap
    } else if let Some(r) = msg.strip_prefix(USER_PANIC_PREFIX) {
        PanicKind::User(r.trim().to_string())
    } else if msg.starts_with("deadlock;") {
        PanicKind::Deadlock
    } else if msg.contains("Causality violation") {
        PanicKind::Causality
    } else if msg.starts_with("Arc leaked") {
        PanicKind::LeakArc
    } else if msg.starts_with("Allocation leaked") {
        PanicKind::LeakAlloc
    } else if msg.starts_with("Messages leaked") {
        PanicKind::LeakMsgs
    } else if msg.contains("exceeded maximum number of branches") {
        PanicKind::BranchLimit
    } else {
        let mut s: String = first.chars().take(90).collect();
        // addresses / numbers make messages unstable; keep the text only
        s = s.chars().map(|c| if c.is_ascii_digit() { '#' } else { c }).collect();
        PanicKind::LoomInternal(s)
    }
}

thread_local! {
    /// Location (file) of the last panic raised on this thread, recorded by the silent hook.
    pub static LAST_PANIC_FILE: RefCell<String> = RefCell::new(String::new());
}

pub fn install_silent_hook() {
    let verbose = std::env::var("LV_VERBOSE").is_ok();
    let default = std::panic::take_hook();
    std::panic::set_hook(Box::new(move |info| {
        if let Some(l) = info.location() {
            let f = l.file().to_string();
            let _ = LAST_PANIC_FILE.try_with(|c| {
                if let Ok(mut c) = c.try_borrow_mut() {
                    *c = f;
                }
            });
        }
        if verbose {
            default(info);
        }
    }));
}

pub fn last_panic_file() -> String {
    LAST_PANIC_FILE.with(|c| c.borrow().clone())
}

pub fn jobs() -> usize {
    std::env::var("VERIF_JOBS").ok().and_then(|s| s.parse().ok()).unwrap_or_else(|| std::thread::available_parallelism().map(|n| n.get()).unwrap_or(8)).max(1)
}
