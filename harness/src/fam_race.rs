//! RACE family (C04, atomics part): non-atomic cell accesses connected — or deliberately not
//! connected — by atomic message passing, fences, RMW chains; loom's causality panic vs. the race oracle.
use crate::common::*;
use crate::lit::*;
use crate::orch::*;
use crate::rc11::*;
use serde_json::json;
use std::sync::OnceLock;

fn core() -> &'static Vec<Prog> {
    static C: OnceLock<Vec<Prog>> = OnceLock::new();
    C.get_or_init(|| {
        use Ord_::*;
        let mut v = Vec::new();
        let st = |loc, val, ord| Op::Store { loc, val, ord };
        let aw = |loc, ord| Op::Await { loc, ord, spin_hint: false, min: 1, ann: None };
        let awge = |loc, ord, min| Op::Await { loc, ord, spin_hint: false, min, ann: None };
        let f = |ord| Op::Fence { ord };
        let cw = Op::CellWrite { c: 0 };
        let cr = Op::CellRead { c: 0 };
        for &so in &STORE_ORDS {
            for &lo in &LOAD_ORDS {
                for acc in [cr, cw] {
                    // one hop
                    v.push(Prog { nlocs: 1, pre: vec![], threads: vec![vec![], vec![cw, st(0, 1, so)], vec![aw(0, lo), acc]] });
                    // reader is the main thread
                    v.push(Prog { nlocs: 1, pre: vec![], threads: vec![vec![aw(0, lo), acc], vec![cw, st(0, 1, so)]] });
                    // through an RMW by a third thread (release sequence), every RMW ordering
                    for &ro in &RMW_ORDS {
                        v.push(Prog { nlocs: 1, pre: vec![], threads: vec![vec![], vec![cw, st(0, 1, so)], vec![Op::FetchAdd { loc: 0, add: 64, ord: ro }], vec![aw(0, lo), acc]] });
                    }
                    // same-thread relaxed store after the release store (strong/weak gap)
                    v.push(Prog { nlocs: 1, pre: vec![], threads: vec![vec![], vec![cw, st(0, 1, so), st(0, 2, Rlx)], vec![aw(0, lo), acc]] });
                    for &so2 in &STORE_ORDS {
                        for &lo2 in &LOAD_ORDS {
                            // two hops through a relay thread
                            v.push(Prog { nlocs: 2, pre: vec![], threads: vec![vec![], vec![cw, st(0, 1, so)], vec![aw(0, lo), st(1, 2, so2)], vec![aw(1, lo2), acc]] });
                        }
                    }
                }
            }
        }
        // the head publishes with an RMW, a relay RMW of another thread continues (or precedes) the release sequence,
        // the consumer waits until both have happened (one spinner only); and the reference-count idiom: two owners
        // decrement, the thread that sees both frees
        for &r1 in &RMW_ORDS {
            for &r2 in &RMW_ORDS {
                for &lo in &LOAD_ORDS {
                    v.push(Prog { nlocs: 1, pre: vec![], threads: vec![vec![], vec![cw, Op::FetchAdd { loc: 0, add: 1, ord: r1 }], vec![Op::FetchAdd { loc: 0, add: 64, ord: r2 }], vec![awge(0, lo, 65), cr]] });
                    v.push(Prog { nlocs: 1, pre: vec![], threads: vec![vec![awge(0, lo, 192), cw], vec![cr, Op::FetchAdd { loc: 0, add: 64, ord: r1 }], vec![cr, Op::FetchAdd { loc: 0, add: 128, ord: r2 }]] });
                }
            }
        }
        // the access lasts for the whole closure: the flag is published from inside it, the cell is used again afterwards
        for &so in &STORE_ORDS {
            for &lo in &LOAD_ORDS {
                for write in [true, false] {
                    let hold = Op::CellHold { c: 0, write, loc: 0, val: 1, ord: so };
                    for acc in [cr, cw] {
                        v.push(Prog { nlocs: 1, pre: vec![], threads: vec![vec![], vec![hold], vec![aw(0, lo), acc]] });
                        v.push(Prog { nlocs: 1, pre: vec![], threads: vec![vec![aw(0, lo), acc], vec![hold]] });
                    }
                    // ordered by the join instead: never a race
                    v.push(Prog { nlocs: 1, pre: vec![], threads: vec![vec![], vec![hold, st(0, 2, so)], vec![]] });
                }
            }
        }
        for &f1 in &FENCE_ORDS {
            for &f2 in &FENCE_ORDS {
                v.push(Prog { nlocs: 1, pre: vec![], threads: vec![vec![], vec![cw, f(f1), st(0, 1, Rlx)], vec![aw(0, Rlx), f(f2), cr]] });
                // relay with fences: the acquire fence must not pick up what only the relay read
                v.push(Prog { nlocs: 2, pre: vec![], threads: vec![vec![], vec![cw, st(0, 1, Rel)], vec![aw(0, Rlx), f(f1), st(1, 2, Rlx)], vec![aw(1, Rlx), f(f2), cr]] });
            }
        }
        // spawn / join edges, unsync_load
        v.push(Prog { nlocs: 1, pre: vec![cw], threads: vec![vec![], vec![cr], vec![cr]] });
        v.push(Prog { nlocs: 1, pre: vec![cr], threads: vec![vec![], vec![cw]] });
        v.push(Prog { nlocs: 1, pre: vec![], threads: vec![vec![cw], vec![cr]] });
        v.push(Prog { nlocs: 1, pre: vec![], threads: vec![vec![], vec![st(0, 1, Rlx)], vec![Op::UnsyncLoad { loc: 0 }]] });
        v.push(Prog { nlocs: 1, pre: vec![st(0, 1, Rlx)], threads: vec![vec![], vec![Op::UnsyncLoad { loc: 0 }], vec![Op::Load { loc: 0, ord: Rlx }]] });
        v.push(Prog { nlocs: 1, pre: vec![], threads: vec![vec![], vec![st(0, 1, Rel)], vec![aw(0, Acq), Op::UnsyncLoad { loc: 0 }]] });
        // unsync_load followed by a release RMW; the other thread's RMW acquires it (ordering from the RMW's own load half)
        for &r1 in &RMW_ORDS {
            for &r2 in &RMW_ORDS {
                v.push(Prog { nlocs: 1, pre: vec![], threads: vec![vec![aw(0, Rlx), Op::Swap { loc: 0, val: 2, ord: r2 }], vec![Op::UnsyncLoad { loc: 0 }, Op::Swap { loc: 0, val: 7, ord: r1 }]] });
            }
        }
        v
    })
}

pub fn n_random(tier: u8) -> usize {
    if tier == 0 {
        1500
    } else {
        60_000
    }
}

pub fn total(tier: u8) -> usize {
    core().len() + n_random(tier)
}

pub fn prog_at(tier: u8, seed: u64, idx: usize) -> Prog {
    let c = core();
    if idx < c.len() {
        return c[idx].clone();
    }
    let mut rng = Rng::new(seed, (idx - c.len()) as u64 ^ 0xC04);
    let a = Alpha { nlocs: 2, rmw: true, cas: false, fadd: true, fences: true, sc_only: false };
    loop {
        let t = 2 + rng.below(2);
        let nl = 1 + rng.below(2);
        let mut p = random_prog(&mut rng, t, 2, nl, if tier == 0 { 4 } else { 5 }, a);
        // sprinkle cell accesses (and now and then an unsync_load)
        let mut writes = 0;
        for th in 0..p.threads.len() {
            if rng.chance(2, 3) {
                let pos = rng.below(p.threads[th].len() + 1);
                let op = if rng.chance(1, 8) {
                    Op::UnsyncLoad { loc: 0 }
                } else if rng.chance(1, 6) {
                    writes += 1;
                    Op::CellHold { c: 0, write: rng.chance(1, 2), loc: rng.below(nl) as u8, val: 90 + th as u64, ord: *rng.pick(&STORE_ORDS) }
                } else if rng.chance(1, 2) {
                    writes += 1;
                    Op::CellWrite { c: 0 }
                } else {
                    Op::CellRead { c: 0 }
                };
                p.threads[th].insert(pos, op);
            }
        }
        // turn some loads into awaits when another thread surely stores a non-zero value there
        for th in 0..p.threads.len() {
            for i in 0..p.threads[th].len() {
                if let Op::Load { loc, ord } = p.threads[th][i] {
                    let stored_elsewhere = (0..p.threads.len()).any(|u| u != th && p.threads[u].iter().any(|o| matches!(o, Op::Store { loc: l, .. } | Op::Swap { loc: l, .. } if *l == loc)));
                    let no_await_yet = !p.has_await();
                    if stored_elsewhere && no_await_yet && rng.chance(1, 2) {
                        p.threads[th][i] = Op::Await { loc, ord, spin_hint: false, min: 1, ann: None };
                    }
                }
            }
        }
        if writes > 0 || p.all_ops().any(|o| matches!(o, Op::UnsyncLoad { .. })) {
            return p;
        }
    }
}

pub fn judge(p: &Prog, rec: &mut Rec, tier: u8, verbose: bool) {
    rec.hash = p.hash();
    rec.prog = p.s();
    rec.extra = json!({"family": "race"});
    let mut st = Stats { budget: 400_000, ..Default::default() };
    let q = p.expanded();
    let verdict = match race_verdict(&q, &mut st) {
        Ok(v) => v,
        Err(Budget) => {
            rec.status = "inconclusive:oracle-budget".into();
            return;
        }
    };
    let (_, stuck) = outcomes_sc(&q);
    if stuck {
        rec.status = "inconclusive:await-can-block".into();
        return;
    }
    let cfg = Cfg { iter_cap: if tier == 0 { 40_000 } else { 150_000 }, max_branches: Some(400), ..Default::default() };
    let r = run(p, &cfg);
    rec.runs = 1;
    rec.iters = r.iters as u64;
    rec.events = r.events as u64;
    rec.orders = r.orders.len() as u64;
    rec.outcomes = r.outcomes.len() as u64;
    let k = r.kind();
    match &k {
        Some(PanicKind::IterCap) | Some(PanicKind::BranchLimit) => {
            rec.status = format!("inconclusive:{}", k.as_ref().unwrap().short());
            return;
        }
        Some(PanicKind::Causality) | None => {}
        Some(other) => {
            rec.v("unexpected_panic", format!("{} @ {}", other.short(), last_panic_file()), r.panic.clone().unwrap_or_default());
        }
    }
    let reported = k == Some(PanicKind::Causality);
    match verdict {
        RaceVerdict::MustReport if !reported => rec.v("missed_race", "", format!("some RC11-consistent execution has two conflicting accesses unordered by happens-before, loom::model returned normally after {} iterations", r.iters)),
        RaceVerdict::MustNotReport if reported => rec.v("false_race", "", format!("no consistent execution (weakest reading) has a race, loom reported: {}", r.panic.as_ref().map(|m| m.lines().take(4).collect::<Vec<_>>().join(" | ")).unwrap_or_default())),
        _ => {}
    }
    rec.nontrivial = verdict != RaceVerdict::Gap && p.threads.iter().filter(|t| !t.is_empty()).count() >= 2;
    if !rec.viol.is_empty() {
        rec.prog_json = serde_json::to_value(p).unwrap();
    }
    if verbose || rec.idx % 199 == 0 {
        rec.extra = json!({"family": "race", "oracle_verdict": format!("{:?}", verdict), "loom_reported_race": reported, "iterations": r.iters});
    }
}

pub fn work(tier: u8, seed: u64, idx: usize) -> Rec {
    let mut rec = Rec::new(idx);
    let p = prog_at(tier, seed, idx);
    judge(&p, &mut rec, tier, false);
    rec
}
