//! LITMUS family: job lists and the per-program worker for the properties decided on litmus
//! programs (C01 atomics part, C02, C03).
use crate::common::*;
use crate::lit::*;
use crate::orch::*;
use crate::rc11::*;
use serde_json::json;
use std::collections::BTreeSet;
use std::sync::OnceLock;

pub fn iter_cap(tier: u8) -> usize {
    if tier == 0 {
        30_000
    } else {
        150_000
    }
}

fn core_c01() -> &'static Vec<Prog> {
    static C: OnceLock<Vec<Prog>> = OnceLock::new();
    C.get_or_init(|| {
        let mut v: Vec<Prog> = classics().into_iter().map(|x| x.1).collect();
        // all 2-thread x 2-op SeqCst programs over 2 locations (loads, stores, swaps)
        v.extend(family(2, 2, Alpha { nlocs: 2, rmw: true, cas: false, fadd: false, fences: false, sc_only: true }, true));
        // 3 threads x 1 op + main 1 op over one location, with CAS and fetch_add
        v.extend(family(3, 1, Alpha { nlocs: 1, rmw: true, cas: true, fadd: true, fences: false, sc_only: true }, true));
        v
    })
}

fn core_c02(tier: u8) -> &'static Vec<Prog> {
    static Q: OnceLock<Vec<Prog>> = OnceLock::new();
    static T: OnceLock<Vec<Prog>> = OnceLock::new();
    let build = move |tier: u8| {
        let mut v: Vec<Prog> = classics().into_iter().map(|x| x.1).collect();
        if tier == 0 {
            // quick: every 2-thread x 2-op program over one location, loads/stores/swaps in every ordering
            v.extend(family(2, 2, Alpha { nlocs: 1, rmw: true, cas: false, fadd: false, fences: false, sc_only: false }, true));
        } else {
            // thorough: the same with fences of every strength in every slot (50 625 programs)
            v.extend(family(2, 2, Alpha { nlocs: 1, rmw: true, cas: false, fadd: false, fences: true, sc_only: false }, true));
        }
        v
    };
    if tier == 0 {
        Q.get_or_init(|| build(0))
    } else {
        T.get_or_init(|| build(1))
    }
}

pub fn n_random(prop: &str, tier: u8) -> usize {
    match (prop, tier) {
        ("C01", 0) => 3000,
        // thorough programs are larger (<= 8 memory events, 4 threads x 2 ops): ~10x the iterations per program
        ("C01", _) => 25_000,
        (_, 0) => 4000,
        (_, _) => 30_000,
    }
}

/// C03 only: programs in which one location receives more stores than loom's store history holds (7). Beyond the
/// window loom may lose allowed outcomes (C02 stops there), but what it returns must still be consistent.
pub fn n_long(prop: &str, tier: u8) -> usize {
    match (prop, tier) {
        ("C03", 0) => 150,
        ("C03", _) => 3000,
        _ => 0,
    }
}

pub fn total(prop: &str, tier: u8) -> usize {
    let core = if prop == "C01" { core_c01().len() } else { core_c02(tier).len() };
    core + n_random(prop, tier) + n_long(prop, tier)
}

pub fn long_history_prog(seed: u64, k: usize) -> Prog {
    use Ord_::*;
    let mut rng = Rng::new(seed, k as u64 ^ 0x10A6);
    let nlocs = 1 + rng.below(2);
    let writer_len = 6 + rng.below(2);
    let mut writer = Vec::new();
    for i in 0..writer_len {
        writer.push(Op::Store { loc: 0, val: 10 + i as u64, ord: *rng.pick(&STORE_ORDS) });
    }
    if nlocs == 2 {
        let pos = rng.below(writer.len() + 1);
        writer.insert(pos, Op::Store { loc: 1, val: 5, ord: *rng.pick(&STORE_ORDS) });
    }
    let others = if rng.chance(1, 4) { 2 } else { 1 };
    let mut threads = vec![Vec::new(); 1 + others];
    let wt = rng.below(1 + others);
    threads[wt] = writer;
    let mut loads = 0;
    for t in 0..threads.len() {
        if t == wt {
            continue;
        }
        let n = if others == 1 { 2 + rng.below(2) } else { 1 };
        for j in 0..n {
            let loc: u8 = if nlocs == 2 && rng.chance(1, 4) { 1 } else { 0 };
            let op = match rng.below(6) {
                0 | 1 if loads < 2 => {
                    loads += 1;
                    Op::Load { loc, ord: *rng.pick(&LOAD_ORDS) }
                }
                2 => Op::Store { loc, val: 100 + (t * 10 + j) as u64, ord: *rng.pick(&STORE_ORDS) },
                3 => Op::Swap { loc, val: 200 + (t * 10 + j) as u64, ord: *rng.pick(&RMW_ORDS) },
                4 => Op::FetchAdd { loc, add: 1000, ord: Rlx },
                _ if loads < 2 => {
                    loads += 1;
                    Op::Load { loc, ord: Rlx }
                }
                _ => Op::Store { loc, val: 300 + (t * 10 + j) as u64, ord: Rlx },
            };
            threads[t].push(op);
        }
    }
    Prog { nlocs, pre: vec![], threads }
}

pub fn prog_at(prop: &str, tier: u8, seed: u64, idx: usize) -> Prog {
    let core = if prop == "C01" { core_c01() } else { core_c02(tier) };
    if idx < core.len() {
        return core[idx].clone();
    }
    if idx >= core.len() + n_random(prop, tier) {
        return long_history_prog(seed, idx - core.len() - n_random(prop, tier));
    }
    let mut rng = Rng::new(seed, (idx - core.len()) as u64 ^ fnv(prop));
    let a = Alpha { nlocs: 2, rmw: true, cas: true, fadd: true, fences: true, sc_only: false };
    // shapes: 2-4 threads, 1-3 locations, <= 3 ops per thread (thorough: <= 4), <= 8 memory events
    let t = 2 + rng.below(3);
    let l = 1 + rng.below(3);
    let k = if tier == 0 {
        match t {
            2 => 2 + rng.below(2),
            3 => 2,
            _ => 1,
        }
    } else {
        match t {
            2 => 2 + rng.below(3),
            3 => 2 + rng.below(2),
            _ => 1 + rng.below(2),
        }
    };
    let max_mem = if tier == 0 { 6 } else { 8 };
    let a = if prop == "C01" && rng.chance(1, 2) { Alpha { sc_only: true, ..a } } else { a };
    random_prog(&mut rng, t, k, l, max_mem, a)
}

fn fmt_set(s: &BTreeSet<Vec<u64>>, max: usize) -> String {
    let mut v: Vec<String> = s.iter().take(max).map(|o| format!("{:?}", o)).collect();
    if s.len() > max {
        v.push(format!("…(+{})", s.len() - max));
    }
    v.join(" ")
}

pub fn judge(prop: &str, p: &Prog, rec: &mut Rec, verbose: bool, tier: u8) {
    rec.hash = p.hash();
    rec.prog = p.s();
    rec.extra = json!({"family": "lit"});
    let cfg = Cfg { iter_cap: iter_cap(tier), ..Default::default() };
    let lr = run(p, &cfg);
    rec.runs = 1;
    rec.iters = lr.iters as u64;
    rec.events = lr.events as u64;
    rec.outcomes = lr.outcomes.len() as u64;
    rec.orders = lr.orders.len() as u64;
    if let Some(k) = lr.kind() {
        match k {
            PanicKind::IterCap => {
                rec.status = "inconclusive:iteration-cap".into();
            }
            other => {
                // a well-formed litmus program has no deadlock, race, leak or user panic
                rec.prog_json = serde_json::to_value(p).unwrap();
                rec.v("unexpected_panic", format!("{} @ {}", other.short(), last_panic_file()), lr.panic.clone().unwrap_or_default());
            }
        }
        return;
    }
    if lr.hook_calls != lr.iters {
        rec.v("harness_error", "", format!("iteration hook fired {} times for {} iterations", lr.hook_calls, lr.iters));
    }
    let mut st = Stats { budget: 400_000, ..Default::default() };
    let reference: BTreeSet<Vec<u64>>;
    match prop {
        "C01" => {
            let (sc, stuck) = outcomes_sc(p);
            assert!(!stuck);
            reference = sc;
            let miss: BTreeSet<_> = reference.difference(&lr.outcomes).cloned().collect();
            if !miss.is_empty() {
                rec.prog_json = serde_json::to_value(p).unwrap();
                rec.v("missing_sc", "", format!("interleaving outcomes never produced: {} ; loom produced {} in {} iterations", fmt_set(&miss, 6), fmt_set(&lr.outcomes, 12), lr.iters));
            }
        }
        "C02" => match allowed(p, Variant::Strong, &mut st) {
            Ok(s) => {
                reference = s;
                let miss: BTreeSet<_> = reference.difference(&lr.outcomes).cloned().collect();
                if !miss.is_empty() {
                    rec.prog_json = serde_json::to_value(p).unwrap();
                    // history signature: the feature shared by every reference witness of every missing outcome
                    let mut sig: Option<Vec<&str>> = None;
                    for o in &miss {
                        let mut st2 = Stats { budget: 2_000_000, ..Default::default() };
                        let f = shared_features(p, o, Variant::Strong, &mut st2).unwrap_or_default();
                        sig = Some(match sig {
                            None => f,
                            Some(prev) => prev.into_iter().filter(|x| f.contains(x)).collect(),
                        });
                    }
                    let sig = sig.unwrap_or_default().join("+");
                    rec.v("missing_strong", sig, format!("RC11-allowed outcomes never produced: {} ; loom produced {} in {} iterations", fmt_set(&miss, 6), fmt_set(&lr.outcomes, 12), lr.iters));
                }
            }
            Err(Budget) => {
                rec.status = "inconclusive:oracle-budget".into();
                return;
            }
        },
        "C03" => match allowed(p, Variant::Weak, &mut st) {
            Ok(w) => {
                reference = w;
                let extra: BTreeSet<_> = lr.outcomes.difference(&reference).cloned().collect();
                if !extra.is_empty() {
                    rec.prog_json = serde_json::to_value(p).unwrap();
                    // first offending iteration as witness
                    let e0 = extra.iter().next().unwrap().clone();
                    // known finding: a location that receives more stores than loom's history window (7) holds
                    let over = (0..p.nlocs as u8).any(|l| 1 + p.all_ops().filter(|o| o.loc() == Some(l) && o.is_write()).count() > 7);
                    rec.v("forbidden_weak", if over { "location_receives_more_stores_than_the_store_history_holds" } else { "" }, format!("outcomes forbidden under the weakest reading: {} ; e.g. {:?} ; allowed: {}", fmt_set(&extra, 6), e0, fmt_set(&reference, 12)));
                }
            }
            Err(Budget) => {
                rec.status = "inconclusive:oracle-budget".into();
                return;
            }
        },
        _ => unreachable!(),
    }
    rec.nontrivial = p.shares() && reference.len() >= 2;
    if verbose || rec.idx % 997 == 0 {
        rec.extra = json!({"family": "lit", "loom_outcomes": fmt_set(&lr.outcomes, 40), "reference_outcomes": fmt_set(&reference, 40), "oracle_checks": st.checks});
    }
}

pub fn work(prop: &str, tier: u8, seed: u64, idx: usize) -> Rec {
    let mut rec = Rec::new(idx);
    let p = prog_at(prop, tier, seed, idx);
    judge(prop, &p, &mut rec, false, tier);
    rec
}
