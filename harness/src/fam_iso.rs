//! C16: iterations and models are isolated. The complete per-iteration record of a pair of programs
//! (a litmus program and a blocking program) plus a thread-identity model is compared between
//! (a) a fresh process, (b) this process after a series of failed ("dirty") models, and
//! (c) this OS thread while other OS threads run other models.
use crate::common::*;
use crate::orch::*;
use crate::{arcs, fam_lit, fam_path, fam_sync, lit, sync};
use serde_json::json;

#[derive(serde::Serialize, serde::Deserialize, PartialEq, Debug, Clone)]
pub struct Record {
    pub lit_seq: u64,
    pub lit_orders: u64,
    pub lit_paths: u64,
    pub lit_iters: usize,
    pub sync_outcomes: u64,
    pub sync_iters: usize,
    pub sync_paths: u64,
    pub ids: String,
    pub panic: Option<String>,
}

fn progs(seed: u64, idx: usize) -> (lit::Prog, sync::SProg) {
    let p = fam_lit::prog_at("C02", 0, seed ^ 0x160, 20_000_000 + idx);
    let s = fam_sync::prog_at("C01", 0, seed ^ 0x161, 20_000_000 + idx);
    (p, s)
}

/// thread identities and initial state, observed over every iteration of a small model
fn ids_model() -> String {
    use std::sync::{Arc, Mutex};
    let out: Arc<Mutex<Vec<String>>> = Arc::new(Mutex::new(vec![]));
    let o2 = out.clone();
    let r = std::panic::catch_unwind(std::panic::AssertUnwindSafe(|| {
        loom::model::Builder::new().check(move || {
            let x = Arc::new(loom::sync::atomic::AtomicUsize::new(0));
            let (tx, rx) = loom::sync::mpsc::channel::<u8>();
            let mut line = format!("main={:?}", loom::thread::current().id());
            // every iteration starts from the initial state
            line += &format!(" x0={} chan_empty={}", x.load(std::sync::atomic::Ordering::SeqCst), rx.try_recv().is_err());
            let ids: Arc<Mutex<Vec<String>>> = Arc::new(Mutex::new(vec![String::new(); 2]));
            let hs: Vec<_> = (0..2)
                .map(|i| {
                    let (x, ids, tx) = (x.clone(), ids.clone(), tx.clone());
                    loom::thread::spawn(move || {
                        x.fetch_add(1, std::sync::atomic::Ordering::SeqCst);
                        let _ = tx.send(i as u8);
                        ids.lock().unwrap()[i] = format!("{:?}", loom::thread::current().id());
                    })
                })
                .collect();
            for h in hs {
                h.join().unwrap();
            }
            let mut got = vec![rx.recv().unwrap(), rx.recv().unwrap()];
            got.sort();
            line += &format!(" children={:?} msgs={:?} x={}", ids.lock().unwrap(), got, x.load(std::sync::atomic::Ordering::SeqCst));
            o2.lock().unwrap().push(line);
        });
    }));
    let v = out.lock().unwrap();
    let distinct: std::collections::BTreeSet<&String> = v.iter().collect();
    format!("iters={} distinct_lines={:?} panic={}", v.len(), distinct, r.is_err())
}

pub fn record(p: &lit::Prog, s: &sync::SProg) -> Record {
    let r = lit::run(p, &lit::Cfg { iter_cap: 30_000, keep_paths: true, keep_seq: true, ..Default::default() });
    let l = sync::run_loom(s, &sync::SCfg { iter_cap: 30_000, max_branches: 5000, keep_paths: true, ..Default::default() });
    Record {
        lit_seq: fnv(&format!("{:?}", r.seq)),
        lit_orders: fnv(&format!("{:?}", r.order_seq)),
        lit_paths: fnv(&format!("{:?}", fam_path::digest_paths(&r.paths))),
        lit_iters: r.iters,
        sync_outcomes: fnv(&format!("{:?}", l.outcomes)),
        sync_iters: l.iters,
        sync_paths: fnv(&format!("{:?}", fam_path::digest_paths(&l.paths))),
        ids: ids_model(),
        panic: r.panic.or(l.panic).map(|m| m.lines().next().unwrap_or("").to_string()),
    }
}

/// `lv child-iso <seed> <idx>`: the fresh-process record
pub fn child_main(seed: u64, idx: usize) -> i32 {
    let (p, s) = progs(seed, idx);
    println!("{}", serde_json::to_string(&record(&p, &s)).unwrap());
    0
}

/// models that fail in every way loom knows; returns how many of them failed as expected
fn dirty(rng: &mut Rng) -> usize {
    use lit::{Op, Ord_::*};
    use sync::SOp::*;
    let mut failed = 0;
    let n = 2 + rng.below(5);
    for _ in 0..n {
        let ok = match rng.below(7) {
            0 => sync::run_loom(&sync::SProg { threads: vec![vec![Lock(0), Lock(1), Unlock(1), Unlock(0)], vec![Lock(1), Lock(0), Unlock(0), Unlock(1)]], loom_arc: rng.chance(1, 2), forget_rx: false, rx_owner: 0 }, &sync::SCfg { iter_cap: 10_000, max_branches: 5000, ..Default::default() }).panic.is_some(),
            1 => lit::run(&lit::Prog { nlocs: 1, pre: vec![], threads: vec![vec![Op::CellWrite { c: 0 }], vec![Op::CellWrite { c: 0 }]] }, &lit::Cfg { iter_cap: 10_000, ..Default::default() }).panic.is_some(),
            2 => arcs::run_loom(&arcs::AProg { threads: vec![vec![arcs::AOp::Forget], vec![arcs::AOp::AllocLeak]], panic_in_drop: false, detached: false, shared: false }, 10_000).panic.is_some(),
            3 => lit::run(&lit::Prog { nlocs: 1, pre: vec![], threads: vec![vec![Op::Await { loc: 0, ord: Acq, spin_hint: false, min: 1, ann: None }], vec![Op::Load { loc: 0, ord: Rlx }]] }, &lit::Cfg { iter_cap: 10_000, max_branches: Some(50), ..Default::default() }).panic.is_some(),
            4 => sync::run_loom(&sync::SProg { threads: vec![vec![Recv], vec![Lock(0), Fail(1), Unlock(0)], vec![Park]], loom_arc: false, forget_rx: false, rx_owner: 0 }, &sync::SCfg { iter_cap: 10_000, max_branches: 5000, ..Default::default() }).panic.is_some(),
            5 => arcs::run_loom(&arcs::AProg { threads: vec![vec![arcs::AOp::Count], vec![arcs::AOp::Clone, arcs::AOp::Drop]], panic_in_drop: true, detached: false, shared: false }, 10_000).panic.is_some(),
            _ => sync::run_loom(&sync::SProg { threads: vec![vec![Send(1), Send(2)], vec![Send(11)]], loom_arc: false, forget_rx: true, rx_owner: 0 }, &sync::SCfg { iter_cap: 10_000, max_branches: 5000, ..Default::default() }).panic.is_some(),
        };
        failed += ok as usize;
    }
    failed
}

pub fn total(tier: u8) -> usize {
    if tier == 0 {
        // 8 + 8 + 2 pristine-replay probes and 26 three-way comparisons
        44
    } else {
        240
    }
}

/// Programs in which state surviving from one iteration into the next becomes visible: both threads use SeqCst
/// fences (global SeqCst view), the reader may still read stale values.
fn leak_probe_prog(i: usize) -> lit::Prog {
    use lit::{Op, Ord_::*};
    let ld = |loc, ord| Op::Load { loc, ord };
    let st = |loc, val, ord| Op::Store { loc, val, ord };
    let f = |ord| Op::Fence { ord };
    match i {
        0 => lit::Prog { nlocs: 2, pre: vec![], threads: vec![vec![], vec![f(Sc), ld(1, Rlx), ld(0, Rlx)], vec![st(0, 1, Rlx), st(1, 2, Rlx), f(Sc)]] },
        1 => lit::Prog { nlocs: 3, pre: vec![], threads: vec![vec![], vec![st(2, 5, Rlx), f(Sc), ld(1, Rlx), ld(0, Rlx)], vec![st(0, 1, Rlx), st(1, 2, Rlx), f(Sc), ld(2, Rlx)]] },
        2 => lit::Prog { nlocs: 2, pre: vec![], threads: vec![vec![f(Sc), ld(0, Rlx)], vec![st(0, 1, Rlx), f(Sc), ld(1, Rlx)], vec![st(1, 2, Rlx), f(Sc)]] },
        // the main thread reads (possibly stale) values before and after it yields in an await loop: its yield bookkeeping
        // decides which stores it may still read
        4 => lit::Prog { nlocs: 2, pre: vec![], threads: vec![vec![ld(1, Rlx), Op::Await { loc: 0, ord: Rlx, spin_hint: false, min: 1, ann: None }, ld(1, Rlx)], vec![st(1, 5, Rlx), st(1, 6, Rlx), st(0, 1, Rlx)]] },
        5 => lit::Prog { nlocs: 2, pre: vec![], threads: vec![vec![ld(1, Rlx), ld(1, Rlx), Op::Await { loc: 0, ord: Acq, spin_hint: true, min: 1, ann: None }], vec![st(1, 5, Rlx), st(0, 1, Rel)], vec![st(1, 7, Rlx)]] },
        _ => lit::Prog { nlocs: 2, pre: vec![], threads: vec![vec![], vec![f(Sc), ld(1, Acq), ld(0, Rlx)], vec![st(0, 1, Rlx), f(Sc), st(1, 2, Rel)], vec![f(Sc), ld(0, Rlx)]] },
    }
}

/// An iteration must behave as if it were the first one of a fresh process: stop the model at every iteration k
/// (checkpoint interval 1), resume from the checkpoint — the resumed run starts with pristine state — and compare
/// with the uninterrupted run, whose iteration k ran after k - 1 others in the same Execution.
fn leak_probe(rec: &mut Rec, i: usize, seed: u64) {
    // probes 4..: the same with exploration controls used inside the iterations (their flags are per-iteration state too)
    let ctrl: u8 = match i {
        0..=3 | 100.. => 0,
        4 => 4,
        5 => 3,
        6 => 5,
        _ => 8,
    };
    let p = leak_probe_prog(if i >= 100 { i - 96 } else { i % 4 });
    rec.prog = format!("{}{}", if ctrl != 0 { format!("[control placement {}] ", ctrl) } else { String::new() }, p.s());
    rec.hash = fnv(&rec.prog);
    rec.extra = json!({"family": "iso"});
    let cfg = lit::Cfg { iter_cap: 50_000, keep_paths: true, keep_seq: true, ctrl, ..Default::default() };
    let full = lit::run(&p, &cfg);
    rec.runs += 1;
    rec.iters += full.iters as u64;
    if full.panic.is_some() {
        rec.v(if ctrl == 8 { "iteration_state_leaks" } else { "unexpected_panic" }, "", format!("the model failed in iteration {}: {}", full.iters, full.panic.clone().unwrap_or_default().lines().next().unwrap_or("")));
        return;
    }
    let n = full.iters;
    if ctrl == 8 {
        // switching exploration off at the very end of an iteration decides nothing: the next iteration must start
        // with exploration on again, i.e. the run must be identical to the one without the call
        let base = lit::run(&p, &lit::Cfg { ctrl: 0, ..cfg.clone() });
        rec.runs += 1;
        if base.seq != full.seq {
            rec.v("iteration_state_leaks", "", format!("with stop_exploring() as the last call of every iteration the model ran {} iterations instead of {}: the exploration flag of one iteration is visible in the next", full.iters, base.iters));
        }
    }
    let dir = verif_root().join("work");
    let _ = std::fs::create_dir_all(&dir);
    let file = dir.join(format!("iso-ckpt-{}-{}-{}.json", std::process::id(), seed, i)).to_string_lossy().to_string();
    // stopping at k costs k iterations: stop points among the first 400 iterations only
    let upto = n.min(400);
    let step = (upto / 40).max(1);
    let mut compared = 0;
    for k in (2..=upto).step_by(step) {
        let _ = std::fs::remove_file(&file);
        let _ = lit::run(&p, &lit::Cfg { checkpoint_file: Some(file.clone()), checkpoint_interval: Some(1), max_permutations: Some(k), ..cfg.clone() });
        // the resumed run only needs its first few iterations
        let rest = lit::run(&p, &lit::Cfg { checkpoint_file: Some(file.clone()), checkpoint_interval: Some(1), max_permutations: Some(4), ..cfg.clone() });
        rec.runs += 2;
        rec.iters += rest.iters as u64;
        compared += 1;
        let m = rest.seq.len().min(n - (k - 1));
        if m == 0 || rest.seq[..m] != full.seq[k - 1..k - 1 + m] {
            let j = (0..m).find(|&j| rest.seq[j] != full.seq[k - 1 + j]).unwrap_or(0);
            rec.v("iteration_state_leaks", "", format!("iteration {} of the uninterrupted run produced {:?}, the same decision path explored from pristine state (resumed from its checkpoint) produces {:?}: something survived from the earlier iterations", k + j, full.seq.get(k - 1 + j), rest.seq.get(j)));
            break;
        }
    }
    let _ = std::fs::remove_file(&file);
    rec.nontrivial = n >= 2;
    rec.extra = json!({"family": "iso", "iterations": n, "iterations_compared_with_a_pristine_replay": compared});
}

pub const N_SYNC_PROBES: usize = 8;

/// The pristine-replay probe over blocking programs with yields: a thread yields while it is the only one that can run
/// (the others are blocked on a lock it holds / on a message it has not sent yet, or have terminated), is picked again,
/// then makes another thread runnable and goes on to an unrelated operation; an earlier race gives the model several
/// iterations. Whether the yielded thread keeps its yielded status is decided by comparing thread ids built from
/// per-execution identifiers, so anything of the first iteration's identity that survives shows here.
fn sync_probe_prog(i: usize, seed: u64) -> sync::SProg {
    use sync::SOp::*;
    let sp = |threads: Vec<Vec<sync::SOp>>| sync::SProg { threads, loom_arc: false, forget_rx: false, rx_owner: 0 };
    match i {
        0 => sp(vec![vec![Lock(0), AStore(1, 1), Yield, Yield, Unlock(0), AStore(0, 1), Join(1)], vec![ALoad(1), Lock(0), Unlock(0)]]),
        1 => sp(vec![vec![AStore(1, 1), Yield, Send(1), AStore(0, 1), Join(1)], vec![ALoad(1), Recv, ALoad(0)]]).with_rx_owner(1),
        2 => sp(vec![vec![Lock(0), AStore(1, 1), Yield, Unlock(0), ALoad(0), Join(1), Join(2)], vec![ALoad(1), Lock(0), Unlock(0)], vec![AStore(0, 1), Lock(0), Unlock(0)]]),
        3 => sp(vec![vec![Write, AStore(1, 1), Yield, Yield, RwUnlock, AStore(0, 1), Join(1)], vec![ALoad(1), Read, RwUnlock, ALoad(0)]]),
        _ => {
            // random blocking programs with yields sprinkled in
            let mut rng = Rng::new(seed, 0x150 + i as u64);
            loop {
                let mut p = crate::fam_sync::prog_at("C07", 0, seed ^ 0x77, 40_000_000 + i * 97 + rng.below(1000));
                let mut n = 0;
                for t in 0..p.threads.len() {
                    let mut k = 0;
                    while k < p.threads[t].len() {
                        if rng.chance(1, 3) && n < 3 {
                            p.threads[t].insert(k, Yield);
                            n += 1;
                            k += 1;
                        }
                        k += 1;
                    }
                }
                if n > 0 {
                    return p;
                }
            }
        }
    }
}

fn sync_leak_probe(rec: &mut Rec, i: usize, seed: u64) {
    let p = sync_probe_prog(i, seed);
    rec.prog = format!("[pristine replay] {}", p.s());
    rec.hash = fnv(&rec.prog);
    rec.extra = json!({"family": "iso"});
    let cfg = sync::SCfg { iter_cap: 20_000, max_branches: 2_000, keep_paths: true, ..Default::default() };
    let full = sync::run_loom(&p, &cfg);
    rec.runs += 1;
    rec.iters += full.iters as u64;
    if full.panic.is_some() {
        // a program that fails (deadlock, ...) has no complete sequence to compare
        rec.status = "ok".into();
        rec.extra = json!({"family": "iso", "skipped": format!("the probe program fails under loom: {}", full.panic.clone().unwrap_or_default().lines().next().unwrap_or(""))});
        return;
    }
    let n = full.seq.len();
    let dir = verif_root().join("work");
    let _ = std::fs::create_dir_all(&dir);
    let file = dir.join(format!("iso-sckpt-{}-{}-{}.json", std::process::id(), seed, i)).to_string_lossy().to_string();
    let upto = n.min(300);
    let step = (upto / 30).max(1);
    let mut compared = 0;
    for k in (2..=upto).step_by(step) {
        let _ = std::fs::remove_file(&file);
        let _ = sync::run_loom(&p, &sync::SCfg { checkpoint_file: Some(file.clone()), checkpoint_interval: Some(1), max_permutations: Some(k), ..cfg.clone() });
        let rest = sync::run_loom(&p, &sync::SCfg { checkpoint_file: Some(file.clone()), checkpoint_interval: Some(1), max_permutations: Some(4), ..cfg.clone() });
        rec.runs += 2;
        rec.iters += rest.iters as u64;
        compared += 1;
        let m = rest.seq.len().min(n - (k - 1));
        if m == 0 || rest.seq[..m] != full.seq[k - 1..k - 1 + m] {
            let j = (0..m).find(|&j| rest.seq[j] != full.seq[k - 1 + j]).unwrap_or(0);
            rec.v("iteration_state_leaks", "", format!("iteration {} of the uninterrupted run (of {}) and the same decision path explored from pristine state (resumed from its checkpoint) executed different schedules / returned different values (record digests {:?} vs {:?}): something survived from the earlier iterations", k + j, n, full.seq.get(k - 1 + j), rest.seq.get(j)));
            rec.prog_json = serde_json::to_value(&p).unwrap();
            break;
        }
    }
    let _ = std::fs::remove_file(&file);
    rec.nontrivial = n >= 2;
    rec.extra = json!({"family": "iso", "iterations": n, "iterations_compared_with_a_pristine_replay": compared});
}

fn thread_limit_probe(rec: &mut Rec) {
    use std::sync::atomic::Ordering::SeqCst;
    rec.prog = "main + 4 threads (the default max_threads), each child: x.fetch_add(1, Relaxed); main joins and reads x".into();
    rec.hash = fnv(&rec.prog);
    rec.extra = json!({"family": "iso"});
    let iters = std::sync::Arc::new(std::sync::atomic::AtomicUsize::new(0));
    let i2 = iters.clone();
    let res = std::panic::catch_unwind(std::panic::AssertUnwindSafe(|| {
        let mut b = loom::model::Builder::new();
        b.preemption_bound = Some(1);
        b.check(move || {
            if i2.fetch_add(1, SeqCst) >= 50_000 {
                panic!("{}", ITER_CAP_MSG);
            }
            let x = std::sync::Arc::new(loom::sync::atomic::AtomicUsize::new(0));
            let hs: Vec<_> = (0..4)
                .map(|_| {
                    let x = x.clone();
                    loom::thread::spawn(move || {
                        x.fetch_add(1, std::sync::atomic::Ordering::Relaxed);
                    })
                })
                .collect();
            for h in hs {
                h.join().unwrap();
            }
            assert_eq!(x.load(std::sync::atomic::Ordering::Relaxed), 4);
        });
    }));
    rec.runs = 1;
    rec.iters = iters.load(SeqCst) as u64;
    rec.nontrivial = rec.iters >= 2;
    if let Err(e) = res {
        let m = panic_msg(e);
        if classify(&m) == PanicKind::IterCap {
            rec.status = "inconclusive:iteration-cap".into();
        } else {
            rec.v("iteration_state_leaks", "", format!("the first iteration ran with 5 threads, iteration {} of the same program failed: {}", rec.iters, m.lines().next().unwrap_or("")));
        }
    } else if rec.iters < 2 {
        rec.v("harness_error", "", "the 5-thread program has a single iteration".to_string());
    }
}

pub fn work(tier: u8, seed: u64, idx: usize) -> Rec {
    let mut rec = Rec::new(idx);
    if idx < 8 {
        leak_probe(&mut rec, idx, seed);
        return rec;
    }
    if idx < 8 + N_SYNC_PROBES {
        sync_leak_probe(&mut rec, idx - 8, seed);
        return rec;
    }
    if idx < 8 + N_SYNC_PROBES + 2 {
        // litmus probes 4 and 5 (a main thread that yields), no control placement
        leak_probe(&mut rec, 100 + idx - 8 - N_SYNC_PROBES, seed);
        return rec;
    }
    if idx + 1 == total(tier) {
        // as many threads as the default limit allows (main + 4): what the first iteration may do, every later one may
        thread_limit_probe(&mut rec);
        return rec;
    }
    let (p, s) = progs(seed, idx);
    rec.prog = format!("{}   &   {}", p.s(), s.s());
    rec.hash = fnv(&rec.prog);
    rec.extra = json!({"family": "iso"});
    // (a) fresh process
    let exe = std::env::current_exe().unwrap();
    let out = std::process::Command::new(exe).args(["child-iso", &seed.to_string(), &idx.to_string()]).stderr(std::process::Stdio::null()).output();
    let fresh: Record = match out {
        Ok(o) if o.status.success() => match serde_json::from_slice(&o.stdout) {
            Ok(r) => r,
            Err(e) => {
                rec.v("harness_error", "", format!("child output: {}", e));
                return rec;
            }
        },
        Ok(o) => {
            rec.status = format!("inconclusive:fresh-child-{}", o.status);
            return rec;
        }
        Err(e) => {
            rec.v("harness_error", "", format!("child: {}", e));
            return rec;
        }
    };
    if fresh.panic.as_deref().map(|m| m.starts_with(ITER_CAP_MSG)).unwrap_or(false) {
        rec.status = "inconclusive:iteration-cap".into();
        return rec;
    }
    rec.runs += 3;
    rec.iters += (fresh.lit_iters + fresh.sync_iters) as u64;
    // (b) same process after dirty models (this worker has also run the earlier jobs of its shard)
    let mut rng = Rng::new(seed, idx as u64 ^ 0xD127);
    let failed = dirty(&mut rng);
    rec.runs += failed as u64;
    let after = record(&p, &s);
    rec.runs += 3;
    rec.iters += (after.lit_iters + after.sync_iters) as u64;
    if after != fresh {
        rec.v("differs_after_failed_models", "", format!("fresh process: {:?} ; after {} failed models in this process: {:?}", fresh, failed, after));
    }
    // (c) while 3..15 other OS threads run other models
    // (under valgrind the concurrent part is skipped: memcheck cannot follow coroutine stack switches on
    // secondary OS threads and floods the log with false "invalid read ... anonymous segment" reports;
    // the sanitizer for this part is ThreadSanitizer, see `./check C16-tsan`)
    let under_valgrind = std::env::var("LV_UNDER_VALGRIND").is_ok();
    let nthreads = if under_valgrind { 0 } else if tier == 0 { 3 + rng.below(4) } else { 3 + rng.below(13) };
    let stop = std::sync::Arc::new(std::sync::atomic::AtomicBool::new(false));
    let others: Vec<_> = (0..nthreads)
        .map(|t| {
            let stop = stop.clone();
            let mut r2 = Rng::new(seed, (idx * 31 + t) as u64 ^ 0x07E5);
            std::thread::spawn(move || {
                let mut n = 0usize;
                while !stop.load(std::sync::atomic::Ordering::Relaxed) && n < 60 {
                    let (p2, s2) = progs(r2.next(), r2.below(1 << 20));
                    let _ = lit::run(&p2, &lit::Cfg { iter_cap: 2_000, ..Default::default() });
                    if r2.chance(1, 3) {
                        std::thread::yield_now();
                    }
                    if r2.chance(1, 5) {
                        std::thread::sleep(std::time::Duration::from_micros(r2.below(300) as u64));
                    }
                    let _ = sync::run_loom(&s2, &sync::SCfg { iter_cap: 2_000, max_branches: 5000, ..Default::default() });
                    if r2.chance(1, 4) {
                        let _ = dirty(&mut r2);
                    }
                    n += 1;
                }
                n
            })
        })
        .collect();
    let conc = record(&p, &s);
    stop.store(true, std::sync::atomic::Ordering::Relaxed);
    let mut other_models = 0;
    for h in others {
        other_models += h.join().unwrap_or(0);
    }
    rec.runs += 3 + 2 * other_models as u64;
    rec.iters += (conc.lit_iters + conc.sync_iters) as u64;
    if conc != fresh {
        rec.v("differs_under_concurrent_models", "", format!("fresh process: {:?} ; while {} other OS threads ran models: {:?}", fresh, nthreads, conc));
    }
    // (d) within the run: every iteration saw the same identities and the initial state
    if !fresh.ids.contains("distinct_lines={\"main=") || fresh.ids.matches("main=").count() != 1 {
        rec.v("iteration_state_leaks", "", format!("iterations of the identity model differ from one another: {}", fresh.ids));
    }
    rec.nontrivial = fresh.lit_iters >= 2 || fresh.sync_iters >= 2;
    if !rec.viol.is_empty() {
        rec.prog_json = json!({"seed": seed, "idx": idx});
    }
    if idx % 7 == 0 {
        rec.extra = json!({"family": "iso", "fresh_record": fresh, "failed_models_before": failed, "concurrent_os_threads": nthreads, "models_run_by_other_threads": other_models});
    }
    rec
}
