//! R-RC11: axiomatic memory-model oracle (Lahav et al., "Repairing sequential consistency in
//! C/C++11"), strong and weak variants (DESIGN §4.2), plus the race oracle. Independent of loom's
//! technique: no vector clocks, no DPOR; bit-matrix relations over <= 32 events.
use crate::lit::*;
use std::collections::BTreeSet;

#[derive(Clone, Copy, Debug, PartialEq, Eq)]
pub enum Kind {
    R,
    W,
    U,
    F,
    NR,
    NW,
}

#[derive(Clone, Copy, Debug)]
pub struct Ev {
    pub tid: usize, // usize::MAX for init
    pub kind: Kind,
    pub loc: Option<u8>,
    pub ord: Ord_,
    pub wval: u64,
    pub rval: u64,
    /// non-atomic object touched: cells 0.., atomics' memory 100+loc
    pub cell: Option<u8>,
}

#[derive(Clone, Copy, Debug, PartialEq, Eq)]
pub enum Variant {
    Strong,
    Weak,
}

pub type M = Vec<u32>;

pub fn closure(m: &mut M) {
    let n = m.len();
    for k in 0..n {
        let mk = m[k];
        for i in 0..n {
            if m[i] >> k & 1 == 1 {
                m[i] |= mk;
            }
        }
    }
}
pub fn compose(a: &M, b: &M) -> M {
    let n = a.len();
    let mut r = vec![0u32; n];
    for i in 0..n {
        let mut row = a[i];
        while row != 0 {
            let k = row.trailing_zeros() as usize;
            row &= row - 1;
            r[i] |= b[k];
        }
    }
    r
}
pub fn union(a: &M, b: &M) -> M {
    a.iter().zip(b).map(|(x, y)| x | y).collect()
}
pub fn irreflexive(a: &M) -> bool {
    a.iter().enumerate().all(|(i, r)| r >> i & 1 == 0)
}

fn is_acq(e: &Ev) -> bool {
    matches!(e.kind, Kind::R | Kind::U | Kind::F) && matches!(e.ord, Ord_::Acq | Ord_::AcqRel | Ord_::Sc)
}
fn is_rel(e: &Ev) -> bool {
    matches!(e.kind, Kind::W | Kind::U | Kind::F) && matches!(e.ord, Ord_::Rel | Ord_::AcqRel | Ord_::Sc)
}

pub struct Skel {
    pub evs: Vec<(usize, Option<Op>)>,
    pub nlocs: usize,
    pub finals: Vec<usize>,
    pub sb: M,
    /// additional happens-before: spawn (pre -> children), join (children -> finals)
    pub extra: M,
    pub readers: Vec<usize>,
    pub pw: Vec<Vec<usize>>,
    pub locs: Vec<Option<u8>>,
}

pub fn skeleton(p: &Prog) -> Skel {
    let mut evs: Vec<(usize, Option<Op>)> = Vec::new();
    for _ in 0..p.nlocs {
        evs.push((usize::MAX, None));
    }
    let mut thread_evs: Vec<Vec<usize>> = vec![Vec::new(); p.threads.len().max(1)];
    let mut pre_evs = Vec::new();
    for op in &p.pre {
        pre_evs.push(evs.len());
        thread_evs[0].push(evs.len());
        evs.push((0, Some(*op)));
    }
    // for a thread that main spawns later: the number of main's events (pre included) that precede its spawn
    let mut spawned_after: Vec<Option<usize>> = vec![None; p.threads.len().max(1)];
    for (t, ops) in p.threads.iter().enumerate() {
        for (i, op) in ops.iter().enumerate() {
            if let Op::SpawnFrom { .. } = op {
                if t == 0 {
                    for u in 1..p.threads.len() {
                        if p.spawn_pos(u) == Some(i) {
                            spawned_after[u] = Some(thread_evs[0].len());
                        }
                    }
                }
                continue;
            }
            thread_evs[t].push(evs.len());
            evs.push((t, Some(*op)));
        }
    }
    let mut finals = Vec::new();
    for _ in 0..p.nlocs {
        finals.push(evs.len());
        evs.push((0, None));
    }
    let n = evs.len();
    assert!(n <= 32, "program too large for the oracle");
    let mut sb: M = vec![0; n];
    for l in 0..p.nlocs {
        for j in p.nlocs..n {
            sb[l] |= 1 << j;
        }
    }
    for v in &thread_evs {
        for a in 0..v.len() {
            for b in a + 1..v.len() {
                sb[v[a]] |= 1 << v[b];
            }
        }
    }
    for &f in &finals {
        for &a in &thread_evs[0] {
            sb[a] |= 1 << f;
        }
    }
    for a in 0..finals.len() {
        for b in a + 1..finals.len() {
            sb[finals[a]] |= 1 << finals[b];
        }
    }
    let mut extra: M = vec![0; n];
    for t in 1..thread_evs.len() {
        for &a in &thread_evs[t] {
            for &f in &finals {
                extra[a] |= 1 << f;
            }
            for &pe in &pre_evs {
                extra[pe] |= 1 << a;
            }
            if let Some(k) = spawned_after[t] {
                for &me in &thread_evs[0][..k] {
                    extra[me] |= 1 << a;
                }
            }
        }
    }
    let mut locs: Vec<Option<u8>> = Vec::new();
    for (i, (_, op)) in evs.iter().enumerate() {
        locs.push(if i < p.nlocs {
            Some(i as u8)
        } else if let Some(pos) = finals.iter().position(|&f| f == i) {
            Some(pos as u8)
        } else {
            match op.unwrap() {
                Op::UnsyncLoad { .. } => None,
                o => o.loc(),
            }
        });
    }
    let mut readers = Vec::new();
    let mut pw: Vec<Vec<usize>> = (0..p.nlocs).map(|l| vec![l]).collect();
    for (i, (_, op)) in evs.iter().enumerate() {
        if let Some(op) = op {
            match op {
                Op::Load { .. } | Op::Await { .. } => readers.push(i),
                Op::Store { loc, .. } => pw[*loc as usize].push(i),
                Op::Swap { loc, .. } | Op::FetchAdd { loc, .. } | Op::Cas { loc, .. } => {
                    readers.push(i);
                    pw[*loc as usize].push(i)
                }
                Op::Fence { .. } | Op::CellRead { .. } | Op::CellWrite { .. } | Op::UnsyncLoad { .. } => {}
                Op::CellHold { .. } => unreachable!("expanded before the oracle"),
                Op::SpawnFrom { .. } => unreachable!("not an event"),
            }
        }
    }
    for &f in &finals {
        readers.push(f);
    }
    Skel { evs, nlocs: p.nlocs, finals, sb, extra, readers, pw, locs }
}

#[derive(Default, Clone, Copy)]
pub struct Stats {
    pub rf_tried: usize,
    pub rf_wellformed: usize,
    pub checks: usize,
    pub budget: usize,
}

#[derive(Debug)]
pub struct Budget;

/// Evaluate values along sb ∪ rf; None if cyclic or a read takes its value from a failed CAS.
fn evaluate(sk: &Skel, rf: &[usize]) -> Option<Vec<Ev>> {
    let n = sk.evs.len();
    let mut evs: Vec<Option<Ev>> = vec![None; n];
    let mut g: M = sk.sb.clone();
    for i in 0..n {
        if rf[i] != usize::MAX {
            if rf[i] == i {
                return None;
            }
            g[rf[i]] |= 1 << i;
        }
    }
    closure(&mut g);
    if !irreflexive(&g) {
        return None;
    }
    let mut done = 0;
    while done < n {
        let mut progressed = false;
        for i in 0..n {
            if evs[i].is_some() {
                continue;
            }
            let (tid, op) = sk.evs[i];
            let src = rf[i];
            let rval = if src != usize::MAX {
                match &evs[src] {
                    Some(e) => {
                        if !matches!(e.kind, Kind::W | Kind::U) {
                            return None;
                        }
                        e.wval
                    }
                    None => continue,
                }
            } else {
                0
            };
            let ev = match op {
                None => {
                    if i < sk.nlocs {
                        Ev { tid: usize::MAX, kind: Kind::W, loc: sk.locs[i], ord: Ord_::Rlx, wval: 0, rval: 0, cell: None }
                    } else {
                        Ev { tid: 0, kind: Kind::R, loc: sk.locs[i], ord: Ord_::Rlx, wval: 0, rval, cell: None }
                    }
                }
                Some(Op::Load { loc, ord }) => Ev { tid, kind: Kind::R, loc: Some(loc), ord, wval: 0, rval, cell: None },
                Some(Op::Await { loc, ord, min, .. }) => {
                    if rval < min {
                        return None;
                    }
                    Ev { tid, kind: Kind::R, loc: Some(loc), ord, wval: 0, rval, cell: None }
                }
                Some(Op::Store { loc, val, ord }) => Ev { tid, kind: Kind::W, loc: Some(loc), ord, wval: val, rval: 0, cell: None },
                Some(Op::Swap { loc, val, ord }) => Ev { tid, kind: Kind::U, loc: Some(loc), ord, wval: val, rval, cell: None },
                Some(Op::FetchAdd { loc, add, ord }) => Ev { tid, kind: Kind::U, loc: Some(loc), ord, wval: rval.wrapping_add(add), rval, cell: None },
                Some(Op::Cas { loc, exp, new, succ, fail }) => {
                    if rval == exp {
                        Ev { tid, kind: Kind::U, loc: Some(loc), ord: succ, wval: new, rval, cell: None }
                    } else {
                        Ev { tid, kind: Kind::R, loc: Some(loc), ord: fail, wval: 0, rval, cell: None }
                    }
                }
                Some(Op::Fence { ord }) => Ev { tid, kind: Kind::F, loc: None, ord, wval: 0, rval: 0, cell: None },
                Some(Op::CellRead { c }) => Ev { tid, kind: Kind::NR, loc: None, ord: Ord_::Rlx, wval: 0, rval: 0, cell: Some(c) },
                Some(Op::CellWrite { c }) => Ev { tid, kind: Kind::NW, loc: None, ord: Ord_::Rlx, wval: 0, rval: 0, cell: Some(c) },
                Some(Op::UnsyncLoad { loc }) => Ev { tid, kind: Kind::NR, loc: None, ord: Ord_::Rlx, wval: 0, rval: 0, cell: Some(100 + loc) },
                Some(Op::CellHold { .. }) => unreachable!("expanded before the oracle"),
                Some(Op::SpawnFrom { .. }) => unreachable!("not an event"),
            };
            evs[i] = Some(ev);
            done += 1;
            progressed = true;
        }
        if !progressed {
            return None;
        }
    }
    Some(evs.into_iter().map(|e| e.unwrap()).collect())
}

pub fn compute_hb(evs: &[Ev], rf: &[usize], sb: &M, extra: &M, variant: Variant) -> M {
    let n = evs.len();
    let mut sw: M = vec![0; n];
    for w0 in 0..n {
        if !matches!(evs[w0].kind, Kind::W | Kind::U) || evs[w0].tid == usize::MAX {
            continue;
        }
        // heads: w0 itself if release, or release fences sb-before w0
        let mut heads: Vec<usize> = Vec::new();
        if is_rel(&evs[w0]) {
            heads.push(w0);
        }
        for f in 0..n {
            if evs[f].kind == Kind::F && is_rel(&evs[f]) && sb[f] >> w0 & 1 == 1 {
                heads.push(f);
            }
        }
        if heads.is_empty() {
            continue;
        }
        // release sequence of w0
        let mut rs: u32 = 1 << w0;
        if variant == Variant::Strong {
            for w1 in 0..n {
                if matches!(evs[w1].kind, Kind::W | Kind::U) && evs[w1].loc == evs[w0].loc && sb[w0] >> w1 & 1 == 1 {
                    rs |= 1 << w1;
                }
            }
        }
        loop {
            let mut grew = false;
            for u in 0..n {
                if evs[u].kind == Kind::U && rf[u] != usize::MAX && rs >> rf[u] & 1 == 1 && rs >> u & 1 == 0 {
                    rs |= 1 << u;
                    grew = true;
                }
            }
            if !grew {
                break;
            }
        }
        for r in 0..n {
            if !matches!(evs[r].kind, Kind::R | Kind::U) || rf[r] == usize::MAX || rs >> rf[r] & 1 == 0 {
                continue;
            }
            let mut tails: Vec<usize> = Vec::new();
            if is_acq(&evs[r]) {
                tails.push(r);
            }
            for f in 0..n {
                if evs[f].kind == Kind::F && is_acq(&evs[f]) && sb[r] >> f & 1 == 1 {
                    tails.push(f);
                }
            }
            for &a in &heads {
                for &b in &tails {
                    if a != b {
                        sw[a] |= 1 << b;
                    }
                }
            }
        }
    }
    let mut hb = union(&union(sb, &sw), extra);
    closure(&mut hb);
    hb
}

/// Linear extensions of hb restricted to the writes of one location, with every RMW immediately
/// after the write it reads (atomicity). `init` is always first.
fn mo_candidates(ws: &[usize], init: usize, evs: &[Ev], rf: &[usize], hb: &M, out: &mut Vec<Vec<usize>>) {
    fn rec(ws: &[usize], placed: &mut Vec<usize>, used: u32, evs: &[Ev], rf: &[usize], hb: &M, out: &mut Vec<Vec<usize>>) {
        if placed.len() == ws.len() + 1 {
            out.push(placed[1..].to_vec());
            return;
        }
        let last = *placed.last().unwrap();
        // if some unplaced RMW reads `last`, it must come next
        let forced: Vec<usize> = ws.iter().copied().filter(|&w| used >> w & 1 == 0 && evs[w].kind == Kind::U && rf[w] == last).collect();
        if forced.len() > 1 {
            return;
        }
        for &w in ws {
            if used >> w & 1 == 1 {
                continue;
            }
            if forced.len() == 1 && forced[0] != w {
                continue;
            }
            if evs[w].kind == Kind::U && rf[w] != last {
                continue;
            }
            // every hb-predecessor among ws must be placed
            let mut ok = true;
            for &v in ws {
                if v != w && used >> v & 1 == 0 && hb[v] >> w & 1 == 1 {
                    ok = false;
                    break;
                }
            }
            if !ok {
                continue;
            }
            placed.push(w);
            rec(ws, placed, used | 1 << w, evs, rf, hb, out);
            placed.pop();
        }
    }
    let mut placed = vec![init];
    rec(ws, &mut placed, 0, evs, rf, hb, out);
}

fn exists_mo(sk: &Skel, evs: &[Ev], rf: &[usize], hb: &M, variant: Variant, stats: &mut Stats) -> Result<bool, Budget> {
    let mut found = false;
    for_each_mo(sk, evs, rf, hb, variant, stats, &mut |_| {
        found = true;
        false
    })?;
    Ok(found)
}

/// Calls `f` with every modification order that makes (evs, rf) consistent; `f` returns false to stop.
fn for_each_mo(sk: &Skel, evs: &[Ev], rf: &[usize], hb: &M, variant: Variant, stats: &mut Stats, f: &mut dyn FnMut(&M) -> bool) -> Result<(), Budget> {
    let n = evs.len();
    if !irreflexive(hb) {
        return Ok(());
    }
    let mut perms: Vec<Vec<Vec<usize>>> = Vec::new();
    for l in 0..sk.nlocs {
        let ws: Vec<usize> = (sk.nlocs..n).filter(|&i| matches!(evs[i].kind, Kind::W | Kind::U) && evs[i].loc == Some(l as u8)).collect();
        let mut ps = Vec::new();
        mo_candidates(&ws, l, evs, rf, hb, &mut ps);
        if ps.is_empty() {
            return Ok(());
        }
        perms.push(ps);
    }
    let mut sel = vec![0usize; sk.nlocs];
    loop {
        stats.checks += 1;
        if stats.checks > stats.budget {
            return Err(Budget);
        }
        let mut mo: M = vec![0; n];
        for l in 0..sk.nlocs {
            let order = &perms[l][sel[l]];
            let mut prev: u32 = 1 << l;
            for &w in order {
                for p in 0..n {
                    if prev >> p & 1 == 1 {
                        mo[p] |= 1 << w;
                    }
                }
                prev |= 1 << w;
            }
        }
        if check(evs, rf, &sk.sb, hb, &mo, variant) && !f(&mo) {
            return Ok(());
        }
        let mut k = 0;
        loop {
            if k == sk.nlocs {
                return Ok(());
            }
            sel[k] += 1;
            if sel[k] < perms[k].len() {
                break;
            }
            sel[k] = 0;
            k += 1;
        }
    }
}

fn pred(m: &M, x: usize, n: usize) -> u32 {
    let mut r = 0;
    for i in 0..n {
        if m[i] >> x & 1 == 1 {
            r |= 1 << i;
        }
    }
    r
}

fn check(evs: &[Ev], rf: &[usize], sb: &M, hb: &M, mo: &M, variant: Variant) -> bool {
    let n = evs.len();
    let mut rfm: M = vec![0; n];
    for r in 0..n {
        if rf[r] != usize::MAX {
            rfm[rf[r]] |= 1 << r;
        }
    }
    let mut fr: M = vec![0; n];
    for r in 0..n {
        if rf[r] != usize::MAX {
            fr[r] |= mo[rf[r]];
            fr[r] &= !(1 << r);
        }
    }
    // ATOMICITY: rmw ∩ (fr ; mo) = ∅
    for u in 0..n {
        if evs[u].kind == Kind::U {
            let w = rf[u];
            if mo[w] & pred(mo, u, n) != 0 {
                return false;
            }
            if mo[w] >> u & 1 == 0 {
                return false;
            }
        }
    }
    let mut eco = union(&union(&rfm, mo), &fr);
    closure(&mut eco);
    // COHERENCE: irreflexive(hb ; eco?)
    if !irreflexive(&compose(hb, &eco)) {
        return false;
    }
    // SC
    let esc = |e: &Ev| variant == Variant::Strong && e.kind != Kind::F && !matches!(e.kind, Kind::NR | Kind::NW) && e.ord == Ord_::Sc;
    let fsc = |e: &Ev| e.kind == Kind::F && e.ord == Ord_::Sc;
    if !evs.iter().any(|e| esc(e) || fsc(e)) {
        return true;
    }
    let mut sbnl: M = vec![0; n];
    for a in 0..n {
        for b in 0..n {
            if sb[a] >> b & 1 == 1 && (evs[a].loc.is_none() || evs[b].loc.is_none() || evs[a].loc != evs[b].loc) {
                sbnl[a] |= 1 << b;
            }
        }
    }
    let mut hbloc: M = vec![0; n];
    for a in 0..n {
        for b in 0..n {
            if hb[a] >> b & 1 == 1 && evs[a].loc.is_some() && evs[a].loc == evs[b].loc {
                hbloc[a] |= 1 << b;
            }
        }
    }
    let scb = union(&union(&union(sb, &compose(&compose(&sbnl, hb), &sbnl)), &union(&hbloc, mo)), &fr);
    let mut left: M = vec![0; n];
    let mut right: M = vec![0; n];
    for a in 0..n {
        if esc(&evs[a]) {
            left[a] |= 1 << a;
        }
        if fsc(&evs[a]) {
            left[a] |= 1 << a | hb[a];
        }
    }
    for b in 0..n {
        if esc(&evs[b]) {
            right[b] |= 1 << b;
        }
        if fsc(&evs[b]) {
            right[b] |= 1 << b;
            for y in 0..n {
                if hb[y] >> b & 1 == 1 {
                    right[y] |= 1 << b;
                }
            }
        }
    }
    let psc_base = compose(&compose(&left, &scb), &right);
    let mid = union(hb, &compose(&compose(hb, &eco), hb));
    let mut psc_f: M = vec![0; n];
    for a in 0..n {
        if fsc(&evs[a]) {
            for b in 0..n {
                if fsc(&evs[b]) && mid[a] >> b & 1 == 1 {
                    psc_f[a] |= 1 << b;
                }
            }
        }
    }
    let mut psc = union(&psc_base, &psc_f);
    closure(&mut psc);
    irreflexive(&psc)
}

fn outcome_of(sk: &Skel, evs: &[Ev]) -> Vec<u64> {
    let mut outcome = Vec::new();
    for (i, (_, op)) in sk.evs.iter().enumerate() {
        if let Some(op) = op {
            if op.returns() {
                outcome.push(evs[i].rval);
            }
        }
    }
    for &f in &sk.finals {
        outcome.push(evs[f].rval);
    }
    outcome
}

/// Enumerate reads-from assignments (each read picks a same-location write), calling `f` for every
/// assignment whose values are well defined along an acyclic sb ∪ rf.
fn for_each_rf(sk: &Skel, stats: &mut Stats, f: &mut dyn FnMut(&[usize], &[Ev], &mut Stats) -> Result<(), Budget>) -> Result<(), Budget> {
    let n = sk.evs.len();
    let mut rf = vec![usize::MAX; n];
    let mut idx = vec![0usize; sk.readers.len()];
    'outer: loop {
        stats.rf_tried += 1;
        if stats.rf_tried > stats.budget.saturating_mul(4) {
            return Err(Budget);
        }
        for (k, &r) in sk.readers.iter().enumerate() {
            rf[r] = sk.pw[sk.locs[r].unwrap() as usize][idx[k]];
        }
        if let Some(evs) = evaluate(sk, &rf) {
            stats.rf_wellformed += 1;
            f(&rf, &evs, stats)?;
        }
        let mut k = 0;
        loop {
            if k == sk.readers.len() {
                break 'outer;
            }
            idx[k] += 1;
            if idx[k] < sk.pw[sk.locs[sk.readers[k]].unwrap() as usize].len() {
                break;
            }
            idx[k] = 0;
            k += 1;
        }
    }
    Ok(())
}

/// All outcomes allowed by the variant. Outcome layout = the interpreter's: values returned by
/// pre, main, thread 1.. in program order, then the final value of every location.
pub fn allowed(p: &Prog, variant: Variant, stats: &mut Stats) -> Result<BTreeSet<Vec<u64>>, Budget> {
    let sk = skeleton(p);
    let mut out = BTreeSet::new();
    for_each_rf(&sk, stats, &mut |rf, evs, stats| {
        let outcome = outcome_of(&sk, evs);
        if !out.contains(&outcome) {
            let hb = compute_hb(evs, rf, &sk.sb, &sk.extra, variant);
            if exists_mo(&sk, evs, rf, &hb, variant, stats)? {
                out.insert(outcome);
            }
        }
        Ok(())
    })?;
    Ok(out)
}

/// Both variants in one enumeration (strong ⊆ weak is asserted by the caller).
pub fn allowed_both(p: &Prog, stats: &mut Stats) -> Result<(BTreeSet<Vec<u64>>, BTreeSet<Vec<u64>>), Budget> {
    let sk = skeleton(p);
    let mut strong = BTreeSet::new();
    let mut weak = BTreeSet::new();
    for_each_rf(&sk, stats, &mut |rf, evs, stats| {
        let outcome = outcome_of(&sk, evs);
        if !weak.contains(&outcome) {
            let hb = compute_hb(evs, rf, &sk.sb, &sk.extra, Variant::Weak);
            if exists_mo(&sk, evs, rf, &hb, Variant::Weak, stats)? {
                weak.insert(outcome.clone());
            }
        }
        if !strong.contains(&outcome) {
            let hb = compute_hb(evs, rf, &sk.sb, &sk.extra, Variant::Strong);
            if exists_mo(&sk, evs, rf, &hb, Variant::Strong, stats)? {
                strong.insert(outcome);
            }
        }
        Ok(())
    })?;
    Ok((strong, weak))
}

/// Feature predicates over reference witnesses, used to give a missing outcome a history signature
/// (DESIGN §8). `SC_STALE`: an SC read takes its value from an SC write `w` although an SC write
/// `w'` that is mo-after `w` precedes the read in (sb ∪ rf)+ — i.e. `w'` has executed before the
/// read in every operational execution with this reads-from relation.
pub const FEATURES: [&str; 1] = ["sc_read_of_sc_store_older_than_an_executed_sc_store"];

fn feature_holds(k: usize, sk: &Skel, evs: &[Ev], rf: &[usize], mo: &M) -> bool {
    let n = evs.len();
    match k {
        0 => {
            let mut g: M = sk.sb.clone();
            for i in 0..n {
                if rf[i] != usize::MAX {
                    g[rf[i]] |= 1 << i;
                }
            }
            closure(&mut g);
            for r in 0..n {
                if !matches!(evs[r].kind, Kind::R | Kind::U) || evs[r].ord != Ord_::Sc || rf[r] == usize::MAX {
                    continue;
                }
                let w = rf[r];
                if w < sk.nlocs || evs[w].ord != Ord_::Sc {
                    continue;
                }
                for w2 in sk.nlocs..n {
                    if matches!(evs[w2].kind, Kind::W | Kind::U) && evs[w2].ord == Ord_::Sc && mo[w] >> w2 & 1 == 1 && g[w2] >> r & 1 == 1 {
                        return true;
                    }
                }
            }
            false
        }
        _ => false,
    }
}

/// For an outcome, the features that hold in EVERY consistent execution producing it (empty if
/// the outcome has no witness or no feature is shared by all of them).
pub fn shared_features(p: &Prog, outcome: &[u64], variant: Variant, stats: &mut Stats) -> Result<Vec<&'static str>, Budget> {
    let sk = skeleton(p);
    let mut all = vec![true; FEATURES.len()];
    let mut witnesses = 0usize;
    for_each_rf(&sk, stats, &mut |rf, evs, stats| {
        if outcome_of(&sk, evs) != outcome {
            return Ok(());
        }
        let hb = compute_hb(evs, rf, &sk.sb, &sk.extra, variant);
        for_each_mo(&sk, evs, rf, &hb, variant, stats, &mut |mo| {
            witnesses += 1;
            for k in 0..FEATURES.len() {
                if all[k] && !feature_holds(k, &sk, evs, rf, mo) {
                    all[k] = false;
                }
            }
            all.iter().any(|b| *b)
        })
    })?;
    if witnesses == 0 {
        return Ok(vec![]);
    }
    Ok((0..FEATURES.len()).filter(|&k| all[k]).map(|k| FEATURES[k]).collect())
}

#[derive(Debug, Clone, Copy, PartialEq, Eq)]
pub enum RaceVerdict {
    MustReport,
    MustNotReport,
    Gap,
}

/// Race oracle: must_report = some strong-consistent execution has two conflicting non-atomic
/// accesses unordered by strong hb; must_not_report = no weak-consistent execution has a race under weak hb.
pub fn race_verdict(p: &Prog, stats: &mut Stats) -> Result<RaceVerdict, Budget> {
    let sk = skeleton(p);
    let mut strong_race = false;
    let mut weak_race = false;
    let racy = |evs: &[Ev], hb: &M| -> bool {
        let n = evs.len();
        for a in 0..n {
            for b in a + 1..n {
                if hb[a] >> b & 1 == 1 || hb[b] >> a & 1 == 1 {
                    continue;
                }
                // cell vs cell
                if evs[a].cell.is_some() && evs[a].cell == evs[b].cell && (evs[a].kind == Kind::NW || evs[b].kind == Kind::NW) {
                    return true;
                }
                // unsync_load vs atomic write of the same location
                for (x, y) in [(a, b), (b, a)] {
                    if let Some(c) = evs[x].cell {
                        if c >= 100 && matches!(evs[y].kind, Kind::W | Kind::U) && evs[y].loc == Some(c - 100) {
                            return true;
                        }
                    }
                }
            }
        }
        false
    };
    for_each_rf(&sk, stats, &mut |rf, evs, stats| {
        if !weak_race {
            let hb = compute_hb(evs, rf, &sk.sb, &sk.extra, Variant::Weak);
            if racy(evs, &hb) && exists_mo(&sk, evs, rf, &hb, Variant::Weak, stats)? {
                weak_race = true;
            }
        }
        if !strong_race {
            let hb = compute_hb(evs, rf, &sk.sb, &sk.extra, Variant::Strong);
            if racy(evs, &hb) && exists_mo(&sk, evs, rf, &hb, Variant::Strong, stats)? {
                strong_race = true;
            }
        }
        Ok(())
    })?;
    Ok(if strong_race {
        RaceVerdict::MustReport
    } else if !weak_race {
        RaceVerdict::MustNotReport
    } else {
        RaceVerdict::Gap
    })
}

/// SC-interleaving reference (R-SC restricted to atomics): outcomes of all interleavings with
/// sequentially consistent memory. A lower bound on what loom must explore (C01).
/// Returns (outcomes, can_get_stuck) where stuck = an await can block for ever.
pub fn outcomes_sc(p: &Prog) -> (BTreeSet<Vec<u64>>, bool) {
    struct S<'a> {
        p: &'a Prog,
        out: BTreeSet<Vec<u64>>,
        stuck: bool,
        seen: std::collections::HashSet<(Vec<usize>, Vec<u64>, Vec<Vec<u64>>)>,
    }
    fn step(op: Op, mem: &mut Vec<u64>, reads: &mut Vec<u64>) {
        match op {
            Op::Load { loc, .. } | Op::Await { loc, .. } => reads.push(mem[loc as usize]),
            Op::Store { loc, val, .. } => mem[loc as usize] = val,
            Op::Swap { loc, val, .. } => {
                reads.push(mem[loc as usize]);
                mem[loc as usize] = val;
            }
            Op::Cas { loc, exp, new, .. } => {
                let v = mem[loc as usize];
                reads.push(v);
                if v == exp {
                    mem[loc as usize] = new;
                }
            }
            Op::FetchAdd { loc, add, .. } => {
                let v = mem[loc as usize];
                reads.push(v);
                mem[loc as usize] = v.wrapping_add(add);
            }
            Op::Fence { .. } | Op::CellRead { .. } | Op::CellWrite { .. } | Op::UnsyncLoad { .. } => {}
            Op::CellHold { loc, val, .. } => mem[loc as usize] = val,
            Op::SpawnFrom { .. } => {}
        }
    }
    fn go(s: &mut S, pcs: &mut Vec<usize>, mem: &mut Vec<u64>, reads: &mut Vec<Vec<u64>>) {
        if !s.seen.insert((pcs.clone(), mem.clone(), reads.clone())) {
            return;
        }
        let mut any = false;
        let mut unfinished = false;
        let main_done = pcs[0] >= s.p.threads[0].len();
        let _ = main_done;
        for t in 0..s.p.threads.len() {
            if pcs[t] < s.p.threads[t].len() {
                unfinished = true;
                // a thread that main spawns later cannot run before that
                if let Some(i) = s.p.spawn_pos(t) {
                    if pcs[0] <= i {
                        continue;
                    }
                }
                let op = s.p.threads[t][pcs[t]];
                if let Op::Await { loc, min, .. } = op {
                    if mem[loc as usize] < min {
                        continue;
                    }
                }
                any = true;
                let saved = mem.clone();
                let rl = reads[t].len();
                step(op, mem, &mut reads[t]);
                pcs[t] += 1;
                go(s, pcs, mem, reads);
                pcs[t] -= 1;
                reads[t].truncate(rl);
                *mem = saved;
            }
        }
        if unfinished && !any {
            s.stuck = true;
        }
        if !unfinished {
            let mut o: Vec<u64> = reads.iter().flatten().copied().collect();
            o.extend(mem.iter());
            s.out.insert(o);
        }
    }
    let mut s = S { p, out: BTreeSet::new(), stuck: false, seen: Default::default() };
    let nt = p.threads.len();
    let mut mem = vec![0u64; p.nlocs];
    let mut reads: Vec<Vec<u64>> = vec![Vec::new(); nt];
    // pre runs before anything else, on thread 0
    for op in &p.pre {
        step(*op, &mut mem, &mut reads[0]);
    }
    go(&mut s, &mut vec![0usize; nt], &mut mem, &mut reads);
    (s.out, s.stuck)
}


/// SC outcomes of the interleavings in which all of main's operations run as one uninterrupted
/// block (placed after any prefix of the other threads' operations). Lower bound for C19: decisions
/// outside a no-exploration region around main's operations must still be explored.
pub fn outcomes_sc_main_atomic(p: &Prog) -> BTreeSet<Vec<u64>> {
    fn step(op: Op, mem: &mut Vec<u64>, reads: &mut Vec<u64>) {
        match op {
            Op::Load { loc, .. } | Op::Await { loc, .. } => reads.push(mem[loc as usize]),
            Op::Store { loc, val, .. } => mem[loc as usize] = val,
            Op::Swap { loc, val, .. } => {
                reads.push(mem[loc as usize]);
                mem[loc as usize] = val;
            }
            Op::Cas { loc, exp, new, .. } => {
                let v = mem[loc as usize];
                reads.push(v);
                if v == exp {
                    mem[loc as usize] = new;
                }
            }
            Op::FetchAdd { loc, add, .. } => {
                let v = mem[loc as usize];
                reads.push(v);
                mem[loc as usize] = v.wrapping_add(add);
            }
            _ => {}
        }
    }
    fn go(p: &Prog, pcs: &mut Vec<usize>, main_done: bool, mem: &mut Vec<u64>, reads: &mut Vec<Vec<u64>>, out: &mut BTreeSet<Vec<u64>>) {
        let mut unfinished = !main_done;
        if !main_done {
            // run main's whole block now
            let saved = mem.clone();
            let rl = reads[0].len();
            for op in &p.threads[0] {
                step(*op, mem, &mut reads[0]);
            }
            go(p, pcs, true, mem, reads, out);
            reads[0].truncate(rl);
            *mem = saved;
        }
        for t in 1..p.threads.len() {
            if pcs[t] < p.threads[t].len() {
                unfinished = true;
                let saved = mem.clone();
                let rl = reads[t].len();
                step(p.threads[t][pcs[t]], mem, &mut reads[t]);
                pcs[t] += 1;
                go(p, pcs, main_done, mem, reads, out);
                pcs[t] -= 1;
                reads[t].truncate(rl);
                *mem = saved;
            }
        }
        if !unfinished {
            let mut o: Vec<u64> = reads.iter().flatten().copied().collect();
            o.extend(mem.iter());
            out.insert(o);
        }
    }
    let nt = p.threads.len();
    let mut mem = vec![0u64; p.nlocs];
    let mut reads: Vec<Vec<u64>> = vec![Vec::new(); nt];
    for op in &p.pre {
        step(*op, &mut mem, &mut reads[0]);
    }
    let mut out = BTreeSet::new();
    go(p, &mut vec![0usize; nt], false, &mut mem, &mut reads, &mut out);
    out
}
