//! C20: future::block_on and future::AtomicWaker. Scripted futures woken by 1-2 threads; a small
//! explicit-state model of `loop { poll; if Pending { notify.wait() } }` decides whether a
//! deadlock is owed / allowed; poll and wake counters; unique-id wakers for AtomicWaker::wake.
use crate::common::*;
use crate::orch::*;
use loom::future::{block_on, AtomicWaker};
use loom::sync::atomic::AtomicBool;
use serde::{Deserialize, Serialize};
use serde_json::json;
use std::collections::HashSet;
use std::future::Future;
use std::pin::Pin;
use std::sync::atomic::Ordering::*;
use std::sync::{Arc, Mutex};
use std::task::{Context, Poll, Waker};

#[derive(Clone, Copy, Debug, PartialEq, Eq, Hash, Serialize, Deserialize)]
pub enum WOp {
    SetFlag,
    /// take the registered waker (AtomicWaker::wake / slot.take()) and wake it
    Wake,
    /// slot only: wake_by_ref, the waker stays registered
    WakeByRef,
    /// slot only: take the waker and drop it without waking
    DropWaker,
    Yield,
}

#[derive(Clone, Debug, PartialEq, Eq, Hash, Serialize, Deserialize)]
pub struct FProg {
    pub use_aw: bool,
    /// the future checks the flag again after registering (the correct protocol)
    pub recheck: bool,
    pub wakers: Vec<Vec<WOp>>,
    /// every waking thread has its own flag and the future is ready when all are set
    #[serde(default)]
    pub flag_per_waker: bool,
    /// flags are stored and loaded Relaxed: they are only visible through the ordering a wake provides
    #[serde(default)]
    pub relaxed_flags: bool,
    /// no registration at all: the future spawns the waking threads during its first poll and hands each a clone
    /// of its waker; the only thing ordering a thread's flag store before the re-poll is the wake itself
    #[serde(default)]
    pub direct: bool,
    /// with `flag_per_waker`: the flags are one counter that every waking thread increments once (fetch_add); the future is
    /// ready when it reads the number of waking threads. A multi-valued location keeps intermediate values readable.
    #[serde(default)]
    pub counter: bool,
    /// the first k polls do nothing but wake the task through the borrowed waker (`cx.waker().wake_by_ref()`) and return
    /// Pending - the `yield_now().await` shape; the waker of `block_on` itself, not a clone
    #[serde(default)]
    pub self_wakes: u8,
    /// an earlier `block_on` on the same thread (its future is Ready at the first poll and hands out a clone of its waker)
    /// has returned; the first waking thread wakes that stale waker before its script. It must not reach the later
    /// `block_on`: not counted as a wake, no poll may be caused by it
    #[serde(default)]
    pub stale_waker: bool,
}
impl FProg {
    pub fn s(&self) -> String {
        format!("{}block_on(fut[{}{}{}{}{}])  ||  {}", if self.stale_waker { "w0 = block_on(ready future handing out its waker) ; " } else { "" }, if self.self_wakes > 0 { format!("first {} polls wake themselves by ref and return Pending, then ", self.self_wakes) } else { String::new() }, if self.direct { "no registration" } else if self.use_aw { "AtomicWaker" } else { "waker slot in a Mutex" }, if self.recheck { ", re-check after register" } else { ", no re-check" }, if self.counter { ", one counter incremented by every waker" } else if self.flag_per_waker { ", one flag per waker" } else { "" }, if self.relaxed_flags { ", relaxed flags" } else { "" }.to_string() + if self.direct { ", wakers handed out at the first poll" } else { "" }, self.wakers.iter().map(|t| t.iter().map(|o| format!("{:?}", o)).collect::<Vec<_>>().join("; ")).collect::<Vec<_>>().join("  ||  "))
    }
}

// ---- reference -------------------------------------------------------------------------------
#[derive(Clone, PartialEq, Eq, Hash)]
struct St {
    flag: u8,
    registered: bool,
    notified: bool,
    spur_used: bool,
    fut: u8, // 0 load, 1 register, 2 recheck, 3 wait entry, 5 blocked, 4 done
    pcs: Vec<u8>,
    started: bool,
    /// direct protocol: which waking threads still hold their waker clone
    has_waker: u8,
    /// polls that still wake themselves
    selfw: u8,
}

/// returns (can_deadlock, can_complete)
fn reference(p: &FProg, spurious: bool) -> (bool, bool) {
    let mut seen: HashSet<St> = HashSet::new();
    let need: u8 = if p.flag_per_waker { (1u8 << p.wakers.len()) - 1 } else { 1 };
    let mut stack = vec![St { flag: 0, registered: false, notified: false, spur_used: false, fut: 0, pcs: vec![0; p.wakers.len()], started: !p.direct, has_waker: 0xff, selfw: p.self_wakes }];
    let (mut dl, mut done) = (false, false);
    while let Some(s) = stack.pop() {
        if !seen.insert(s.clone()) {
            continue;
        }
        let mut succ: Vec<St> = Vec::new();
        // the future / block_on
        match s.fut {
            0 => {
                let mut n = s.clone();
                n.started = true;
                if s.selfw > 0 {
                    // wake_by_ref on the task's own waker during the poll, then Pending
                    n.selfw -= 1;
                    n.notified = true;
                    n.fut = 3;
                } else {
                    // the direct protocol has nothing to register: Pending right away
                    n.fut = if s.flag & need == need { 4 } else if p.direct { 3 } else { 1 };
                }
                succ.push(n);
            }
            1 => {
                let mut n = s.clone();
                n.registered = true;
                n.fut = if p.recheck { 2 } else { 3 };
                succ.push(n);
            }
            2 => {
                let mut n = s.clone();
                n.fut = if s.flag & need == need { 4 } else { 3 };
                succ.push(n);
            }
            3 => {
                if spurious && !s.spur_used {
                    let mut n = s.clone();
                    n.spur_used = true;
                    n.fut = 0;
                    succ.push(n);
                }
                let mut n = s.clone();
                if s.notified {
                    n.notified = false;
                    n.fut = 0;
                } else {
                    n.fut = 5;
                }
                succ.push(n);
            }
            5 => {
                if s.notified {
                    let mut n = s.clone();
                    n.notified = false;
                    n.fut = 0;
                    succ.push(n);
                }
            }
            _ => {}
        }
        for (t, ops) in p.wakers.iter().enumerate() {
            if s.started && (s.pcs[t] as usize) < ops.len() {
                let mut n = s.clone();
                n.pcs[t] += 1;
                match ops[s.pcs[t] as usize] {
                    WOp::SetFlag => n.flag |= if p.flag_per_waker { 1 << t } else { 1 },
                    WOp::Wake => {
                        if p.direct {
                            if s.has_waker >> t & 1 == 1 {
                                n.notified = true;
                            }
                        } else if s.registered {
                            n.registered = false;
                            n.notified = true;
                        }
                    }
                    WOp::WakeByRef => {
                        if (p.direct && s.has_waker >> t & 1 == 1) || (!p.direct && s.registered) {
                            n.notified = true;
                        }
                    }
                    WOp::DropWaker => {
                        if p.direct {
                            n.has_waker &= !(1 << t);
                        } else {
                            n.registered = false;
                        }
                    }
                    WOp::Yield => {}
                }
                succ.push(n);
            }
        }
        if succ.is_empty() {
            if s.fut == 4 {
                done = true;
            } else {
                dl = true;
            }
        }
        stack.extend(succ);
    }
    (dl, done)
}

// ---- real loom -------------------------------------------------------------------------------
struct Shared {
    count: Option<loom::sync::atomic::AtomicUsize>,
    flags: [AtomicBool; 2],
    need: usize,
    relaxed: bool,
    slot: loom::sync::Mutex<Option<Waker>>,
    aw: AtomicWaker,
    polls: std::sync::atomic::AtomicUsize,
    wakes: std::sync::atomic::AtomicUsize,
}
impl Shared {
    fn ready(&self) -> bool {
        let o = if self.relaxed { Relaxed } else { Acquire };
        if let Some(c) = &self.count {
            return c.load(o) == self.need;
        }
        (0..self.need).all(|i| self.flags[i].load(o))
    }
}
struct Fut {
    s: Arc<Shared>,
    use_aw: bool,
    recheck: bool,
    /// direct protocol: spawns the waking threads at the first poll
    direct: Option<(Arc<FProg>, Arc<std::sync::atomic::AtomicUsize>)>,
    started: bool,
    selfw: u8,
    handles: Arc<Mutex<Vec<loom::thread::JoinHandle<()>>>>,
}
impl Fut {
    fn self_wake(&mut self, cx: &mut Context<'_>) -> bool {
        if self.selfw == 0 {
            return false;
        }
        self.selfw -= 1;
        self.s.wakes.fetch_add(1, SeqCst);
        cx.waker().wake_by_ref();
        true
    }
}
impl Future for Fut {
    type Output = usize;
    fn poll(mut self: Pin<&mut Self>, cx: &mut Context<'_>) -> Poll<usize> {
        self.s.polls.fetch_add(1, SeqCst);
        if let Some((p, ev)) = self.direct.clone() {
            if !self.started {
                self.started = true;
                for t in 0..p.wakers.len() {
                    let (s2, p3, e3) = (self.s.clone(), p.clone(), ev.clone());
                    let mut waker = Some(cx.waker().clone());
                    let h = loom::thread::spawn(move || {
                        for op in &p3.wakers[t] {
                            e3.fetch_add(1, SeqCst);
                            match op {
                                WOp::SetFlag => match &s2.count {
                                    Some(c) => {
                                        c.fetch_add(1, if p3.relaxed_flags { Relaxed } else { Release });
                                    }
                                    None => s2.flags[if p3.flag_per_waker { t.min(1) } else { 0 }].store(true, if p3.relaxed_flags { Relaxed } else { Release }),
                                },
                                WOp::Wake | WOp::WakeByRef => {
                                    if let Some(w) = waker.as_ref() {
                                        s2.wakes.fetch_add(1, SeqCst);
                                        w.wake_by_ref();
                                    }
                                }
                                WOp::DropWaker => drop(waker.take()),
                                WOp::Yield => loom::thread::yield_now(),
                            }
                        }
                    });
                    self.handles.lock().unwrap().push(h);
                }
            }
            if self.self_wake(cx) {
                return Poll::Pending;
            }
            return if self.s.ready() { Poll::Ready(1) } else { Poll::Pending };
        }
        if self.self_wake(cx) {
            return Poll::Pending;
        }
        if self.s.ready() {
            return Poll::Ready(1);
        }
        if self.use_aw {
            self.s.aw.register_by_ref(cx.waker());
        } else {
            // clone before, drop after the critical section: Waker clone/drop are loom operations
            let w = cx.waker().clone();
            let old = std::mem::replace(&mut *self.s.slot.lock().unwrap(), Some(w));
            drop(old);
        }
        if self.recheck && self.s.ready() {
            Poll::Ready(1)
        } else {
            Poll::Pending
        }
    }
}

pub struct FRun {
    pub iters: usize,
    pub returned: usize,
    pub panic: Option<String>,
    pub max_excess_polls: i64,
    pub events: usize,
}

pub fn run_loom(p: &FProg, iter_cap: usize) -> FRun {
    run_loom_bounded(p, iter_cap, None)
}

pub fn run_loom_bounded(p: &FProg, iter_cap: usize, bound: Option<usize>) -> FRun {
    let iters = Arc::new(std::sync::atomic::AtomicUsize::new(0));
    let rets = Arc::new(std::sync::atomic::AtomicUsize::new(0));
    let excess = Arc::new(std::sync::atomic::AtomicI64::new(i64::MIN));
    let events = Arc::new(std::sync::atomic::AtomicUsize::new(0));
    let (i2, r2, x2, e2) = (iters.clone(), rets.clone(), excess.clone(), events.clone());
    let p2 = Arc::new(p.clone());
    let res = std::panic::catch_unwind(std::panic::AssertUnwindSafe(|| {
        let mut b = loom::model::Builder::new();
        b.max_branches = 5000;
        b.preemption_bound = bound;
        b.check(move || {
            if i2.fetch_add(1, SeqCst) >= iter_cap {
                panic!("{}", ITER_CAP_MSG);
            }
            let s = Arc::new(Shared { count: if p2.counter { Some(loom::sync::atomic::AtomicUsize::new(0)) } else { None }, flags: [AtomicBool::new(false), AtomicBool::new(false)], need: if p2.flag_per_waker { p2.wakers.len().min(2) } else { 1 }, relaxed: p2.relaxed_flags, slot: loom::sync::Mutex::new(None), aw: AtomicWaker::new(), polls: Default::default(), wakes: Default::default() });
            let use_aw = p2.use_aw;
            let mut hs = Vec::new();
            // an earlier block_on of this thread, already finished
            struct Grab;
            impl Future for Grab {
                type Output = Waker;
                fn poll(self: Pin<&mut Self>, cx: &mut Context<'_>) -> Poll<Waker> {
                    Poll::Ready(cx.waker().clone())
                }
            }
            let mut stale: Option<Waker> = if p2.stale_waker { Some(block_on(Grab)) } else { None };
            let handles: Arc<Mutex<Vec<loom::thread::JoinHandle<()>>>> = Arc::new(Mutex::new(Vec::new()));
            for t in 0..if p2.direct { 0 } else { p2.wakers.len() } {
                let (s2, p3, e3) = (s.clone(), p2.clone(), e2.clone());
                let stale = if t == 0 { stale.take() } else { None };
                hs.push(loom::thread::spawn(move || {
                    if let Some(w) = stale {
                        w.wake_by_ref();
                        drop(w);
                    }
                    for op in &p3.wakers[t] {
                        e3.fetch_add(1, SeqCst);
                        match op {
                            WOp::SetFlag => match &s2.count {
                                Some(c) => {
                                    c.fetch_add(1, if p3.relaxed_flags { Relaxed } else { Release });
                                }
                                None => s2.flags[if p3.flag_per_waker { t.min(1) } else { 0 }].store(true, if p3.relaxed_flags { Relaxed } else { Release }),
                            },
                            WOp::Wake => {
                                if use_aw {
                                    if let Some(w) = s2.aw.take_waker() {
                                        s2.wakes.fetch_add(1, SeqCst);
                                        w.wake();
                                    }
                                } else {
                                    let w = s2.slot.lock().unwrap().take();
                                    if let Some(w) = w {
                                        s2.wakes.fetch_add(1, SeqCst);
                                        w.wake();
                                    }
                                }
                            }
                            WOp::WakeByRef => {
                                let w = s2.slot.lock().unwrap().clone();
                                if let Some(w) = w {
                                    s2.wakes.fetch_add(1, SeqCst);
                                    w.wake_by_ref();
                                    drop(w);
                                }
                            }
                            WOp::DropWaker => {
                                let w = if use_aw { s2.aw.take_waker() } else { s2.slot.lock().unwrap().take() };
                                drop(w);
                            }
                            WOp::Yield => loom::thread::yield_now(),
                        }
                    }
                }));
            }
            drop(stale.take());
            let out = block_on(Fut { s: s.clone(), use_aw, recheck: p2.recheck, direct: if p2.direct { Some((p2.clone(), e2.clone())) } else { None }, started: false, selfw: p2.self_wakes, handles: handles.clone() });
            assert_eq!(out, 1, "block_on returned something else than the future's output");
            r2.fetch_add(1, SeqCst);
            // every poll after the first is preceded by a wake or by the single modelled spurious return
            let ex = s.polls.load(SeqCst) as i64 - s.wakes.load(SeqCst) as i64 - 2;
            x2.fetch_max(ex, SeqCst);
            for h in hs {
                h.join().unwrap();
            }
            let spawned: Vec<_> = std::mem::take(&mut *handles.lock().unwrap());
            for h in spawned {
                h.join().unwrap();
            }
            // break the cycle waker -> notify so that nothing is reported as leaked
            let w = s.slot.lock().unwrap().take();
            drop(w);
            drop(s.aw.take_waker());
        });
    }));
    let panic = res.err().map(panic_msg);
    FRun { iters: iters.load(SeqCst), returned: rets.load(SeqCst), panic, max_excess_polls: excess.load(SeqCst), events: events.load(SeqCst) }
}

// ---- AtomicWaker::wake wakes the most recently registered waker ------------------------------
struct IdWaker {
    id: u8,
    log: Arc<Mutex<Vec<(u8, u8)>>>,
}
impl std::task::Wake for IdWaker {
    fn wake(self: Arc<Self>) {
        self.log.lock().unwrap().push((9, self.id));
    }
}

/// events: (1,i) registration i done, (2,0) wake called, (3,0) wake returned, (9,id) waker id woken
fn aw_order_check(nreg: usize, iter_cap: usize) -> (usize, Vec<String>, Option<String>) {
    let errs: Arc<Mutex<Vec<String>>> = Arc::new(Mutex::new(vec![]));
    let iters = Arc::new(std::sync::atomic::AtomicUsize::new(0));
    let (e2, i2) = (errs.clone(), iters.clone());
    let res = std::panic::catch_unwind(std::panic::AssertUnwindSafe(|| {
        loom::model::Builder::new().check(move || {
            if i2.fetch_add(1, SeqCst) >= iter_cap {
                panic!("{}", ITER_CAP_MSG);
            }
            let log: Arc<Mutex<Vec<(u8, u8)>>> = Arc::new(Mutex::new(vec![]));
            let aw = Arc::new(AtomicWaker::new());
            let (aw2, l2) = (aw.clone(), log.clone());
            let h = loom::thread::spawn(move || {
                l2.lock().unwrap().push((2, 0));
                aw2.wake();
                l2.lock().unwrap().push((3, 0));
            });
            for i in 1..=nreg as u8 {
                let w: Waker = Arc::new(IdWaker { id: i, log: log.clone() }).into();
                aw.register_by_ref(&w);
                log.lock().unwrap().push((1, i));
                drop(w);
            }
            h.join().unwrap();
            drop(aw.take_waker());
            let lg = log.lock().unwrap().clone();
            let pos = |e: (u8, u8)| lg.iter().position(|x| *x == e);
            let woken: Vec<u8> = lg.iter().filter(|e| e.0 == 9).map(|e| e.1).collect();
            let wake_call = pos((2, 0)).unwrap();
            let mut bad = None;
            if woken.len() > 1 {
                bad = Some(format!("one wake() call woke {} wakers", woken.len()));
            }
            // the most recent registration completed before wake() was called
            let last_done_before = (1..=nreg as u8).filter(|i| pos((1, *i)).map(|p| p < wake_call).unwrap_or(false)).max();
            match (last_done_before, woken.first()) {
                (Some(i), Some(w)) if *w < i => bad = Some(format!("wake() woke waker {} although registration {} had completed before the call", w, i)),
                (Some(i), None) => bad = Some(format!("wake() woke nobody although registration {} had completed before the call", i)),
                _ => {}
            }
            if let Some(b) = bad {
                e2.lock().unwrap().push(format!("{} ; events {:?}", b, lg));
            }
        });
    }));
    let v = errs.lock().unwrap().clone();
    (iters.load(SeqCst), v, res.err().map(panic_msg))
}

// ---- jobs ------------------------------------------------------------------------------------
fn core() -> &'static Vec<FProg> {
    static C: std::sync::OnceLock<Vec<FProg>> = std::sync::OnceLock::new();
    C.get_or_init(|| {
        use WOp::*;
        let mut v = Vec::new();
        // every waker script of length <= 3 over {SetFlag, Wake} (+ slot-only ops), one waker thread
        for use_aw in [true, false] {
            let al: Vec<WOp> = if use_aw { vec![SetFlag, Wake, DropWaker] } else { vec![SetFlag, Wake, WakeByRef, DropWaker] };
            let mut lists: Vec<Vec<WOp>> = vec![];
            for a in &al {
                lists.push(vec![*a]);
                for b in &al {
                    lists.push(vec![*a, *b]);
                    for c in &al {
                        lists.push(vec![*a, *b, *c]);
                    }
                }
            }
            for l in &lists {
                for recheck in [true, false] {
                    v.push(FProg { use_aw, recheck, wakers: vec![l.clone()], flag_per_waker: false, relaxed_flags: false, direct: false, counter: false, self_wakes: 0, stale_waker: false });
                }
            }
            // two waker threads
            // (two wakers cost >= 100 000 iterations each: a handful here, more in the random part of the thorough tier)
            for (a, b) in [(vec![SetFlag, Wake], vec![Wake]), (vec![SetFlag], vec![SetFlag, Wake])] {
                v.push(FProg { use_aw, recheck: true, wakers: vec![a.clone(), b.clone()], flag_per_waker: false, relaxed_flags: false, direct: false, counter: false, self_wakes: 0, stale_waker: false });
            }
            // two wakers, each with its own relaxed flag: the flags are only visible through the wakes; when the two
            // wakes coalesce into one notification the re-poll must still see both
            v.push(FProg { use_aw, recheck: true, wakers: vec![vec![SetFlag, Wake], vec![SetFlag, Wake]], flag_per_waker: true, relaxed_flags: true, direct: false, counter: false, self_wakes: 0, stale_waker: false });
            v.push(FProg { use_aw, recheck: true, wakers: vec![vec![SetFlag, Wake], vec![SetFlag, Wake]], flag_per_waker: true, relaxed_flags: false, direct: false, counter: false, self_wakes: 0, stale_waker: false });
            v.push(FProg { use_aw, recheck: true, wakers: vec![vec![SetFlag, Wake]], flag_per_waker: false, relaxed_flags: true, direct: false, counter: false, self_wakes: 0, stale_waker: false });
            if !use_aw {
                // wakers handed out at the first poll (no registration): one and two waking threads, every flag ordering
                for relaxed_flags in [false, true] {
                    v.push(FProg { use_aw, recheck: true, wakers: vec![vec![SetFlag, Wake]], flag_per_waker: false, relaxed_flags, direct: true, counter: false, self_wakes: 0, stale_waker: false });
                    v.push(FProg { use_aw, recheck: true, wakers: vec![vec![SetFlag, Wake], vec![SetFlag, Wake]], flag_per_waker: true, relaxed_flags, direct: true, counter: false, self_wakes: 0, stale_waker: false });
                    v.push(FProg { use_aw, recheck: true, wakers: vec![vec![SetFlag, Wake], vec![SetFlag, Wake]], flag_per_waker: false, relaxed_flags, direct: true, counter: false, self_wakes: 0, stale_waker: false });
                    v.push(FProg { use_aw, recheck: true, wakers: vec![vec![Wake, SetFlag, Wake], vec![SetFlag]], flag_per_waker: true, relaxed_flags, direct: true, counter: false, self_wakes: 0, stale_waker: false });
                    v.push(FProg { use_aw, recheck: true, wakers: vec![vec![SetFlag], vec![SetFlag, Wake]], flag_per_waker: true, relaxed_flags, direct: true, counter: false, self_wakes: 0, stale_waker: false });
                }
                v.push(FProg { use_aw, recheck: true, wakers: vec![vec![SetFlag, WakeByRef], vec![SetFlag, WakeByRef]], flag_per_waker: true, relaxed_flags: true, direct: false, counter: false, self_wakes: 0, stale_waker: false });
                // one counter, two wakers, both wakes may arrive during the first poll: the poll caused by the (coalesced)
                // wake must see both increments; a stale intermediate value stays readable after the spurious re-poll
                for relaxed_flags in [true, false] {
                    for direct in [true, false] {
                        v.push(FProg { use_aw, recheck: true, wakers: vec![vec![SetFlag, Wake], vec![SetFlag, Wake]], flag_per_waker: true, relaxed_flags, direct, counter: true, self_wakes: 0, stale_waker: false });
                        v.push(FProg { use_aw, recheck: true, wakers: vec![vec![SetFlag, WakeByRef], vec![SetFlag, WakeByRef]], flag_per_waker: true, relaxed_flags, direct, counter: true, self_wakes: 0, stale_waker: false });
                    }
                }
            }
        }
        // an earlier block_on on the same thread whose waker is still around: waking it must not reach the later block_on
        for use_aw in [true, false] {
            for wakers in [vec![vec![SetFlag, Wake]], vec![vec![Wake, SetFlag, Wake]], vec![vec![SetFlag]], vec![vec![SetFlag, Wake], vec![Wake]]] {
                v.push(FProg { use_aw, recheck: true, wakers, flag_per_waker: false, relaxed_flags: false, direct: false, counter: false, self_wakes: 0, stale_waker: true });
            }
        }
        // a task that wakes itself through the borrowed waker of block_on and returns Pending (`yield_now().await`): the
        // wake is not lost whether or not a clone of the waker exists at that moment
        for self_wakes in [1u8, 2] {
            for use_aw in [true, false] {
                v.push(FProg { use_aw, recheck: true, wakers: vec![vec![SetFlag, Wake]], flag_per_waker: false, relaxed_flags: false, direct: false, counter: false, self_wakes, stale_waker: false });
                v.push(FProg { use_aw, recheck: true, wakers: vec![vec![SetFlag]], flag_per_waker: false, relaxed_flags: false, direct: false, counter: false, self_wakes, stale_waker: false });
                v.push(FProg { use_aw, recheck: false, wakers: vec![vec![Wake, SetFlag]], flag_per_waker: false, relaxed_flags: false, direct: false, counter: false, self_wakes, stale_waker: false });
            }
            v.push(FProg { use_aw: false, recheck: true, wakers: vec![vec![SetFlag, Wake]], flag_per_waker: false, relaxed_flags: true, direct: true, counter: false, self_wakes, stale_waker: false });
            v.push(FProg { use_aw: false, recheck: true, wakers: vec![vec![SetFlag, Wake, DropWaker]], flag_per_waker: false, relaxed_flags: false, direct: true, counter: false, self_wakes, stale_waker: false });
            v.push(FProg { use_aw: false, recheck: true, wakers: vec![vec![SetFlag, DropWaker]], flag_per_waker: false, relaxed_flags: false, direct: true, counter: false, self_wakes, stale_waker: false });
            v.push(FProg { use_aw: false, recheck: true, wakers: vec![vec![DropWaker, SetFlag]], flag_per_waker: false, relaxed_flags: false, direct: true, counter: false, self_wakes, stale_waker: false });
        }
        v
    })
}

pub fn total(tier: u8) -> usize {
    core().len() + 3 + if tier == 0 { 100 } else { 1500 }
}

pub fn prog_at(seed: u64, idx: usize) -> FProg {
    let c = core();
    if idx < c.len() {
        return c[idx].clone();
    }
    let mut rng = Rng::new(seed, idx as u64 ^ 0xC20);
    let use_aw = rng.chance(1, 2);
    // no yields: loom does not reschedule a yielded thread before another thread has run, which is a fairness
    // assumption the reference model does not make
    let al: Vec<WOp> = if use_aw { vec![WOp::SetFlag, WOp::Wake, WOp::DropWaker] } else { vec![WOp::SetFlag, WOp::Wake, WOp::WakeByRef, WOp::DropWaker] };
    let n = if rng.chance(1, 8) { 2 } else { 1 };
    let wakers: Vec<Vec<WOp>> = (0..n).map(|_| (0..1 + rng.below(if n == 1 { 4 } else { 2 })).map(|_| *rng.pick(&al)).collect()).collect();
    let two = wakers.len() == 2;
    FProg { use_aw, recheck: rng.chance(3, 4), wakers, flag_per_waker: two && rng.chance(1, 2), relaxed_flags: rng.chance(1, 3), direct: rng.chance(1, 4), counter: false, self_wakes: if rng.chance(1, 5) { 1 + rng.below(2) as u8 } else { 0 }, stale_waker: false }
}

pub fn judge(p: &FProg, rec: &mut Rec, tier: u8) {
    rec.hash = fnv(&p.s());
    rec.prog = p.s();
    rec.extra = json!({"family": "fut"});
    let (must_dl, _) = reference(p, false);
    let (may_dl, may_done) = reference(p, true);
    // two wakers with one flag each need > 500 000 iterations unbounded: explored with a preemption bound of 2
    // (3 in the thorough tier); only the soundness clauses (no false deadlock, output returned, poll count) are
    // decided for them
    let bounded = p.flag_per_waker && p.wakers.len() >= 2 && !p.direct;
    let r = if bounded { run_loom_bounded(p, 500_000, Some(if tier == 0 { 2 } else { 3 })) } else { run_loom(p, if tier == 0 { 500_000 } else { 3_000_000 }) };
    rec.runs = 1;
    rec.iters = r.iters as u64;
    rec.events = r.events as u64;
    let k = r.panic.as_ref().map(|m| classify(m));
    match &k {
        Some(PanicKind::IterCap) => {
            rec.status = "inconclusive:iteration-cap".into();
            return;
        }
        Some(PanicKind::Deadlock) => {
            if !may_dl {
                rec.v("lost_wakeup", "", format!("loom reports a deadlock but a wake always follows or overlaps the Pending return in the model (block_on must return): {}", r.panic.clone().unwrap_or_default().lines().next().unwrap_or("")));
            }
        }
        Some(other) => rec.v("unexpected_panic", format!("{} @ {}", other.short(), last_panic_file()), r.panic.clone().unwrap_or_default()),
        None => {
            if must_dl && !bounded {
                rec.v("missed_deadlock", "", "no wake can arrive in some execution, yet loom::model returned normally".to_string());
            }
            if r.returned != r.iters {
                rec.v("block_on_no_return", "", format!("{} iterations but block_on returned in {}", r.iters, r.returned));
            }
        }
    }
    if r.max_excess_polls > 0 {
        rec.v("spurious_poll", "", format!("an iteration polled the future {} times more than wakes + 2", r.max_excess_polls));
    }
    let _ = may_done;
    rec.nontrivial = !p.wakers.is_empty() && r.iters >= 1;
    if !rec.viol.is_empty() {
        rec.prog_json = serde_json::to_value(p).unwrap();
    }
    if rec.idx % 37 == 0 {
        rec.extra = json!({"family": "fut", "iterations": r.iters, "block_on_returned": r.returned, "model_deadlock_owed": must_dl, "model_deadlock_allowed": may_dl, "loom_panic": r.panic.as_ref().map(|m| m.lines().next().unwrap_or("").to_string())});
    }
}

pub fn work(tier: u8, seed: u64, idx: usize) -> Rec {
    let mut rec = Rec::new(idx);
    let ncore = core().len();
    if idx >= ncore && idx < ncore + 3 {
        // AtomicWaker ordering probes with 1..3 registrations
        let nreg = idx - ncore + 1;
        rec.prog = format!("AtomicWaker: {} registrations with unique wakers  ||  wake()", nreg);
        rec.hash = fnv(&rec.prog);
        let (iters, errs, panic) = aw_order_check(nreg, 100_000);
        rec.runs = 1;
        rec.iters = iters as u64;
        rec.nontrivial = true;
        for e in errs.iter().take(3) {
            rec.v("wrong_waker", "", e.clone());
        }
        if let Some(m) = panic {
            rec.v("unexpected_panic", "", m);
        }
        rec.extra = json!({"family": "fut", "iterations": iters});
        return rec;
    }
    let p = prog_at(seed, idx);
    judge(&p, &mut rec, tier);
    rec
}
