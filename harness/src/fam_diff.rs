//! C12: loom atomics vs std atomics, side by side, in a single-threaded model closure.
use crate::common::*;
use crate::orch::*;
use serde_json::json;
use std::sync::atomic::Ordering::{self, *};
use std::sync::{Arc, Mutex};

const RMW: [Ordering; 5] = [Relaxed, Acquire, Release, AcqRel, SeqCst];
const LD: [Ordering; 3] = [Relaxed, Acquire, SeqCst];
const ST: [Ordering; 3] = [Relaxed, Release, SeqCst];

/// failure ordering valid for a given success ordering (std rejects Release/AcqRel as failure)
fn fail_for(rng: &mut Rng) -> Ordering {
    LD[rng.below(3)]
}

pub struct SeqOut {
    pub errors: Vec<String>,
    pub iters: usize,
    pub ops: usize,
    pub kinds: u32,
    pub sample: Vec<String>,
}

macro_rules! diff_int {
    ($fname:ident, $t:ty, $loom:ident, $std:ident) => {
        pub fn $fname(seed: u64, nops: usize, want_sample: bool) -> SeqOut {
            let errs: Arc<Mutex<Vec<String>>> = Arc::new(Mutex::new(Vec::new()));
            let sample: Arc<Mutex<Vec<String>>> = Arc::new(Mutex::new(Vec::new()));
            let kinds = Arc::new(std::sync::atomic::AtomicU32::new(0));
            let (e2, s2, k2) = (errs.clone(), sample.clone(), kinds.clone());
            let iters = Arc::new(std::sync::atomic::AtomicUsize::new(0));
            let i2 = iters.clone();
            let mut b = loom::model::Builder::new();
            b.max_branches = 100_000;
            let r = std::panic::catch_unwind(std::panic::AssertUnwindSafe(|| {
                b.check(move || {
                    i2.fetch_add(1, SeqCst);
                    let mut rng = Rng::new(seed, 0xD1FF);
                    let pool: [$t; 12] = [0 as $t, 1 as $t, 2 as $t, <$t>::MAX, <$t>::MAX - 1, <$t>::MIN, <$t>::MIN + 1, (0 as $t).wrapping_sub(1), (<$t>::MAX / 2) + 1, 0x55 as $t, (<$t>::MAX / 2), ((1u64 << 32) as $t).wrapping_add(3)];
                    let val = |rng: &mut Rng| -> $t {
                        if rng.below(3) == 0 {
                            rng.next() as $t
                        } else {
                            pool[rng.below(pool.len())]
                        }
                    };
                    let init = val(&mut rng);
                    let mut l = loom::sync::atomic::$loom::new(init);
                    let mut s = std::sync::atomic::$std::new(init);
                    for i in 0..nops {
                        let (a, b2) = (val(&mut rng), val(&mut rng));
                        let o = RMW[rng.below(5)];
                        let k = rng.below(18);
                        k2.fetch_or(1 << k, SeqCst);
                        let (x, y): (String, String) = match k {
                            0 => {
                                let o = LD[rng.below(3)];
                                (format!("{:?}", l.load(o)), format!("{:?}", s.load(o)))
                            }
                            1 => {
                                let o = ST[rng.below(3)];
                                l.store(a, o);
                                s.store(a, o);
                                (String::new(), String::new())
                            }
                            2 => (format!("{:?}", l.swap(a, o)), format!("{:?}", s.swap(a, o))),
                            3 => {
                                let cur = if rng.below(2) == 0 { s.load(Relaxed) } else { a };
                                let f = fail_for(&mut rng);
                                (format!("{:?}", l.compare_exchange(cur, b2, o, f)), format!("{:?}", s.compare_exchange(cur, b2, o, f)))
                            }
                            4 => {
                                // a weak CAS may fail spuriously in std; loom's never does: compare with the strong std CAS
                                let cur = if rng.below(2) == 0 { s.load(Relaxed) } else { a };
                                let f = fail_for(&mut rng);
                                (format!("{:?}", l.compare_exchange_weak(cur, b2, o, f)), format!("{:?}", s.compare_exchange(cur, b2, o, f)))
                            }
                            5 => (format!("{:?}", l.fetch_add(a, o)), format!("{:?}", s.fetch_add(a, o))),
                            6 => (format!("{:?}", l.fetch_sub(a, o)), format!("{:?}", s.fetch_sub(a, o))),
                            7 => (format!("{:?}", l.fetch_and(a, o)), format!("{:?}", s.fetch_and(a, o))),
                            8 => (format!("{:?}", l.fetch_nand(a, o)), format!("{:?}", s.fetch_nand(a, o))),
                            9 => (format!("{:?}", l.fetch_or(a, o)), format!("{:?}", s.fetch_or(a, o))),
                            10 => (format!("{:?}", l.fetch_xor(a, o)), format!("{:?}", s.fetch_xor(a, o))),
                            11 => (format!("{:?}", l.fetch_max(a, o)), format!("{:?}", s.fetch_max(a, o))),
                            12 => (format!("{:?}", l.fetch_min(a, o)), format!("{:?}", s.fetch_min(a, o))),
                            13 => {
                                let f = fail_for(&mut rng);
                                if rng.below(2) == 0 {
                                    let g = |v: $t| if v == a { None } else { Some(v.wrapping_add(b2)) };
                                    (format!("{:?}", l.fetch_update(o, f, g)), format!("{:?}", s.fetch_update(o, f, g)))
                                } else {
                                    // FnMut with state: the arguments it is called with, how often, and a result that depends on the call
                                    // (uncontended: exactly one call with the current value, as in std)
                                    let (mut lc, mut sc) = (Vec::new(), Vec::new());
                                    let (mut lt, mut st) = (Some(b2), Some(b2));
                                    let lr = l.fetch_update(o, f, |v: $t| { lc.push(v); if v == a { None } else { lt.take().map(|t| v.wrapping_add(t)) } });
                                    let sr = s.fetch_update(o, f, |v: $t| { sc.push(v); if v == a { None } else { st.take().map(|t| v.wrapping_add(t)) } });
                                    (format!("{:?} closure called with {:?}", lr, lc), format!("{:?} closure called with {:?}", sr, sc))
                                }
                            }
                            14 => {
                                if (a as u64 ^ b2 as u64) & 3 == 1 {
                                    // the closure writes and then fails, the program catches the panic and carries on: what was
                                    // written through the `&mut` stays written (std: through get_mut)
                                    let r = std::panic::catch_unwind(std::panic::AssertUnwindSafe(|| {
                                        l.with_mut(|v| {
                                            *v = v.wrapping_mul(3).wrapping_add(a);
                                            panic!("{}with_mut closure", USER_PANIC_PREFIX)
                                        })
                                    }));
                                    assert!(r.is_err());
                                } else {
                                    l.with_mut(|v| *v = v.wrapping_mul(3).wrapping_add(a));
                                }
                                let v = s.get_mut();
                                *v = v.wrapping_mul(3).wrapping_add(a);
                                (String::new(), String::new())
                            }
                            15 => (format!("{:?}", unsafe { l.unsync_load() }), format!("{:?}", s.load(Relaxed))),
                            16 => {
                                #[allow(deprecated)]
                                let r = (format!("{:?}", l.compare_and_swap(a, b2, o)), format!("{:?}", s.compare_and_swap(a, b2, o)));
                                r
                            }
                            _ => {
                                // move out and back in: into_inner / new
                                let lv = std::mem::replace(&mut l, loom::sync::atomic::$loom::new(0 as $t)).into_inner();
                                let sv = std::mem::replace(&mut s, std::sync::atomic::$std::new(0 as $t)).into_inner();
                                l = loom::sync::atomic::$loom::new(lv);
                                s = std::sync::atomic::$std::new(sv);
                                (format!("{:?}", lv), format!("{:?}", sv))
                            }
                        };
                        if want_sample && i < 12 {
                            s2.lock().unwrap().push(format!("op{} kind{} args({:?},{:?},{:?}) -> {}", i, k, a, b2, o, x));
                        }
                        if x != y {
                            e2.lock().unwrap().push(format!("{} op#{} kind {} args ({:?},{:?}) {:?}: loom {} std {}", stringify!($t), i, k, a, b2, o, x, y));
                        }
                    }
                    let (fl, fs) = (l.into_inner(), s.into_inner());
                    if fl != fs {
                        e2.lock().unwrap().push(format!("{} final: loom {:?} std {:?}", stringify!($t), fl, fs));
                    }
                });
            }));
            let mut v = errs.lock().unwrap().clone();
            if let Err(e) = r {
                v.push(format!("{}: the model panicked: {}", stringify!($t), panic_msg(e).lines().next().unwrap_or("")));
            }
            let it = iters.load(SeqCst);
            if it != 1 && v.is_empty() {
                v.push(format!("{}: single-threaded model ran {} iterations (spurious branch)", stringify!($t), it));
            }
            let sample = sample.lock().unwrap().clone();
            SeqOut { errors: v, iters: it, ops: nops, kinds: kinds.load(SeqCst), sample }
        }
    };
}
diff_int!(d_u8, u8, AtomicU8, AtomicU8);
diff_int!(d_i8, i8, AtomicI8, AtomicI8);
diff_int!(d_u16, u16, AtomicU16, AtomicU16);
diff_int!(d_i16, i16, AtomicI16, AtomicI16);
diff_int!(d_u32, u32, AtomicU32, AtomicU32);
diff_int!(d_i32, i32, AtomicI32, AtomicI32);
diff_int!(d_u64, u64, AtomicU64, AtomicU64);
diff_int!(d_i64, i64, AtomicI64, AtomicI64);
diff_int!(d_usize, usize, AtomicUsize, AtomicUsize);
diff_int!(d_isize, isize, AtomicIsize, AtomicIsize);

fn d_bool(seed: u64, nops: usize, want_sample: bool) -> SeqOut {
    let errs: Arc<Mutex<Vec<String>>> = Arc::new(Mutex::new(Vec::new()));
    let sample: Arc<Mutex<Vec<String>>> = Arc::new(Mutex::new(Vec::new()));
    let (e2, s2) = (errs.clone(), sample.clone());
    let iters = Arc::new(std::sync::atomic::AtomicUsize::new(0));
    let i2 = iters.clone();
    let kinds = Arc::new(std::sync::atomic::AtomicU32::new(0));
    let k2 = kinds.clone();
    let mut b = loom::model::Builder::new();
    b.max_branches = 100_000;
    let r = std::panic::catch_unwind(std::panic::AssertUnwindSafe(|| {
        b.check(move || {
            i2.fetch_add(1, SeqCst);
            let mut rng = Rng::new(seed, 0xB001);
            let init = rng.chance(1, 2);
            let mut l = loom::sync::atomic::AtomicBool::new(init);
            let mut s = std::sync::atomic::AtomicBool::new(init);
            for i in 0..nops {
                let (a, b2) = (rng.chance(1, 2), rng.chance(1, 2));
                let o = RMW[rng.below(5)];
                let k = rng.below(13);
                k2.fetch_or(1 << k, SeqCst);
                let (x, y): (String, String) = match k {
                    0 => {
                        let o = LD[rng.below(3)];
                        (format!("{:?}", l.load(o)), format!("{:?}", s.load(o)))
                    }
                    1 => {
                        let o = ST[rng.below(3)];
                        l.store(a, o);
                        s.store(a, o);
                        (String::new(), String::new())
                    }
                    2 => (format!("{:?}", l.swap(a, o)), format!("{:?}", s.swap(a, o))),
                    3 => {
                        let f = fail_for(&mut rng);
                        (format!("{:?}", l.compare_exchange(a, b2, o, f)), format!("{:?}", s.compare_exchange(a, b2, o, f)))
                    }
                    4 => {
                        let f = fail_for(&mut rng);
                        (format!("{:?}", l.compare_exchange_weak(a, b2, o, f)), format!("{:?}", s.compare_exchange(a, b2, o, f)))
                    }
                    5 => (format!("{:?}", l.fetch_and(a, o)), format!("{:?}", s.fetch_and(a, o))),
                    6 => (format!("{:?}", l.fetch_nand(a, o)), format!("{:?}", s.fetch_nand(a, o))),
                    7 => (format!("{:?}", l.fetch_or(a, o)), format!("{:?}", s.fetch_or(a, o))),
                    8 => (format!("{:?}", l.fetch_xor(a, o)), format!("{:?}", s.fetch_xor(a, o))),
                    9 => {
                        let f = fail_for(&mut rng);
                        if rng.below(2) == 0 {
                            let g = |v: bool| if v == a { None } else { Some(v ^ b2) };
                            (format!("{:?}", l.fetch_update(o, f, g)), format!("{:?}", s.fetch_update(o, f, g)))
                        } else {
                            let (mut lc, mut sc) = (Vec::new(), Vec::new());
                            let (mut lt, mut st) = (Some(b2), Some(b2));
                            let lr = l.fetch_update(o, f, |v: bool| { lc.push(v); if v == a { None } else { lt.take().map(|t| v ^ t) } });
                            let sr = s.fetch_update(o, f, |v: bool| { sc.push(v); if v == a { None } else { st.take().map(|t| v ^ t) } });
                            (format!("{:?} closure called with {:?}", lr, lc), format!("{:?} closure called with {:?}", sr, sc))
                        }
                    }
                    10 => {
                        // AtomicBool has no with_mut in loom: move out and back in instead
                        let lv = std::mem::replace(&mut l, loom::sync::atomic::AtomicBool::new(false)).into_inner();
                        let sv = std::mem::replace(&mut s, std::sync::atomic::AtomicBool::new(false)).into_inner();
                        l = loom::sync::atomic::AtomicBool::new(!lv ^ a);
                        s = std::sync::atomic::AtomicBool::new(!sv ^ a);
                        (format!("{:?}", lv), format!("{:?}", sv))
                    }
                    11 => (format!("{:?}", unsafe { l.unsync_load() }), format!("{:?}", s.load(Relaxed))),
                    _ => {
                        #[allow(deprecated)]
                        let r = (format!("{:?}", l.compare_and_swap(a, b2, o)), format!("{:?}", s.compare_and_swap(a, b2, o)));
                        r
                    }
                };
                if want_sample && i < 12 {
                    s2.lock().unwrap().push(format!("op{} kind{} args({:?},{:?},{:?}) -> {}", i, k, a, b2, o, x));
                }
                if x != y {
                    e2.lock().unwrap().push(format!("bool op#{} kind {} args ({:?},{:?}) {:?}: loom {} std {}", i, k, a, b2, o, x, y));
                }
            }
            let (fl, fs) = (l.into_inner(), s.into_inner());
            if fl != fs {
                e2.lock().unwrap().push(format!("bool final: loom {:?} std {:?}", fl, fs));
            }
        });
    }));
    let mut v = errs.lock().unwrap().clone();
    if let Err(e) = r {
        v.push(format!("bool: the model panicked: {}", panic_msg(e).lines().next().unwrap_or("")));
    }
    let it = iters.load(SeqCst);
    if it != 1 && v.is_empty() {
        v.push(format!("bool: single-threaded model ran {} iterations", it));
    }
    let sample = sample.lock().unwrap().clone();
    SeqOut { errors: v, iters: it, ops: nops, kinds: kinds.load(SeqCst), sample }
}

fn d_ptr(seed: u64, nops: usize, want_sample: bool) -> SeqOut {
    let errs: Arc<Mutex<Vec<String>>> = Arc::new(Mutex::new(Vec::new()));
    let sample: Arc<Mutex<Vec<String>>> = Arc::new(Mutex::new(Vec::new()));
    let (e2, s2) = (errs.clone(), sample.clone());
    let iters = Arc::new(std::sync::atomic::AtomicUsize::new(0));
    let i2 = iters.clone();
    let kinds = Arc::new(std::sync::atomic::AtomicU32::new(0));
    let k2 = kinds.clone();
    let mut b = loom::model::Builder::new();
    b.max_branches = 100_000;
    let r = std::panic::catch_unwind(std::panic::AssertUnwindSafe(|| {
        b.check(move || {
            i2.fetch_add(1, SeqCst);
            let mut rng = Rng::new(seed, 0x9999);
            static TARGETS: [u32; 6] = [1, 2, 3, 4, 5, 6];
            let pool: Vec<*mut u32> = vec![std::ptr::null_mut(), &TARGETS[0] as *const u32 as *mut u32, &TARGETS[1] as *const u32 as *mut u32, &TARGETS[5] as *const u32 as *mut u32, usize::MAX as *mut u32, (1usize << 47) as *mut u32, ((1usize << 63) + 8) as *mut u32];
            let init = pool[rng.below(pool.len())];
            let mut l = loom::sync::atomic::AtomicPtr::new(init);
            let mut s = std::sync::atomic::AtomicPtr::new(init);
            for i in 0..nops {
                let (a, b2) = (pool[rng.below(pool.len())], pool[rng.below(pool.len())]);
                let o = RMW[rng.below(5)];
                let k = rng.below(9);
                k2.fetch_or(1 << k, SeqCst);
                let (x, y): (String, String) = match k {
                    0 => {
                        let o = LD[rng.below(3)];
                        (format!("{:?}", l.load(o)), format!("{:?}", s.load(o)))
                    }
                    1 => {
                        let o = ST[rng.below(3)];
                        l.store(a, o);
                        s.store(a, o);
                        (String::new(), String::new())
                    }
                    2 => (format!("{:?}", l.swap(a, o)), format!("{:?}", s.swap(a, o))),
                    3 => {
                        let cur = if rng.below(2) == 0 { s.load(Relaxed) } else { a };
                        let f = fail_for(&mut rng);
                        (format!("{:?}", l.compare_exchange(cur, b2, o, f)), format!("{:?}", s.compare_exchange(cur, b2, o, f)))
                    }
                    4 => {
                        let cur = if rng.below(2) == 0 { s.load(Relaxed) } else { a };
                        let f = fail_for(&mut rng);
                        (format!("{:?}", l.compare_exchange_weak(cur, b2, o, f)), format!("{:?}", s.compare_exchange(cur, b2, o, f)))
                    }
                    5 => {
                        let f = fail_for(&mut rng);
                        if rng.below(2) == 0 {
                            let g = |v: *mut u32| if v == a { None } else { Some(b2) };
                            (format!("{:?}", l.fetch_update(o, f, g)), format!("{:?}", s.fetch_update(o, f, g)))
                        } else {
                            let (mut lc, mut sc) = (Vec::new(), Vec::new());
                            let (mut lt, mut st) = (Some(b2), Some(b2));
                            let lr = l.fetch_update(o, f, |v: *mut u32| { lc.push(v); if v == a { None } else { lt.take() } });
                            let sr = s.fetch_update(o, f, |v: *mut u32| { sc.push(v); if v == a { None } else { st.take() } });
                            (format!("{:?} closure called with {:?}", lr, lc), format!("{:?} closure called with {:?}", sr, sc))
                        }
                    }
                    6 => {
                        l.with_mut(|v| *v = a);
                        *s.get_mut() = a;
                        (String::new(), String::new())
                    }
                    7 => (format!("{:?}", unsafe { l.unsync_load() }), format!("{:?}", s.load(Relaxed))),
                    _ => {
                        #[allow(deprecated)]
                        let r = (format!("{:?}", l.compare_and_swap(a, b2, o)), format!("{:?}", s.compare_and_swap(a, b2, o)));
                        r
                    }
                };
                if want_sample && i < 12 {
                    s2.lock().unwrap().push(format!("op{} kind{} -> {}", i, k, x));
                }
                if x != y {
                    e2.lock().unwrap().push(format!("ptr op#{} kind {}: loom {} std {}", i, k, x, y));
                }
            }
            let (fl, fs) = (l.into_inner(), s.into_inner());
            if fl != fs {
                e2.lock().unwrap().push(format!("ptr final: loom {:?} std {:?}", fl, fs));
            }
        });
    }));
    let mut v = errs.lock().unwrap().clone();
    if let Err(e) = r {
        v.push(format!("ptr: the model panicked: {}", panic_msg(e).lines().next().unwrap_or("")));
    }
    let it = iters.load(SeqCst);
    if it != 1 && v.is_empty() {
        v.push(format!("ptr: single-threaded model ran {} iterations", it));
    }
    let sample = sample.lock().unwrap().clone();
    SeqOut { errors: v, iters: it, ops: nops, kinds: kinds.load(SeqCst), sample }
}

const TYPES: [&str; 12] = ["u8", "i8", "u16", "i16", "u32", "i32", "u64", "i64", "usize", "isize", "bool", "ptr"];
const BATCH: usize = 50;

pub fn total(tier: u8) -> usize {
    // each job = BATCH sequences of one type
    TYPES.len() * if tier == 0 { 1000 } else { 40_000 }
}

pub fn work(tier: u8, seed: u64, idx: usize) -> Rec {
    let mut rec = Rec::new(idx);
    let ty = idx % TYPES.len();
    let nops = if tier == 0 { 60 } else { 120 };
    rec.prog = format!("{} batch {}", TYPES[ty], idx / TYPES.len());
    rec.hash = fnv(&format!("{}-{}-{}", seed, idx, tier));
    let mut kinds = 0u32;
    let mut sample = vec![];
    for j in 0..BATCH {
        let s = seed.wrapping_mul(1_000_003).wrapping_add((idx * BATCH + j) as u64);
        let want = j == 0 && idx < TYPES.len();
        let f: fn(u64, usize, bool) -> SeqOut = match ty {
            0 => d_u8,
            1 => d_i8,
            2 => d_u16,
            3 => d_i16,
            4 => d_u32,
            5 => d_i32,
            6 => d_u64,
            7 => d_i64,
            8 => d_usize,
            9 => d_isize,
            10 => d_bool,
            _ => d_ptr,
        };
        let out = f(s, nops, want);
        rec.runs += 1;
        rec.iters += out.iters as u64;
        rec.events += out.ops as u64;
        kinds |= out.kinds;
        if want {
            sample = out.sample;
        }
        for e in out.errors.iter().take(3) {
            rec.v("value_mismatch", "", format!("sequence seed {}: {}", s, e));
        }
    }
    rec.nontrivial = kinds.count_ones() >= 5;
    if !rec.viol.is_empty() {
        rec.prog_json = json!({"seed": seed, "idx": idx});
    }
    rec.extra = json!({"family": "diff", "type": TYPES[ty], "sequences": BATCH, "ops_per_sequence": nops, "operation_kinds_exercised": kinds.count_ones(), "first_sequence": sample});
    rec
}
